//! GSD domain (C19): the GSD parser never panics and reproduces what the file says.
//!
//! Case lines (inputs):
//!   REN <texthex> <expected-dump>   text rendered from a generated description (expected = dump of it)
//!   SET <texthex> <expected-dump>   the same, settings-only files (the fragment of the proved round trip)
//!   MUT <texthex>                   grammar-aware mutation of a rendered text or of mock.gsd
//!   SOUP <texthex>                  random token soup after the marker
//!   RAND <texthex>                  random bytes
//!   WIT <texthex>                   hand-written witness (corpus)
//! Result: `<impl> ## <tree>` where
//!   impl = `PANIC file:line` | `ERR P` (pest syntax error) | `ERR C` (custom error of parser.rs)
//!        | `OK <nwarnings> <dump>`
//!   tree = `NOTREE` | canonical dump of the pair tree of the harness's OWN pest parser, compiled from a
//!          copy of the repository's gsd.pest: `rule:texthex` for a pair without inner pairs,
//!          `rule(child,child,...)` otherwise.
use crate::util::*;
use gsd_parser as gp;
use std::collections::BTreeMap;
use std::fmt::Write as _;
use std::sync::Arc;

mod own {
    #[derive(pest_derive::Parser)]
    #[grammar = "src/gsd_copy.pest"]
    pub struct OwnParser;
}

const MOCK: &[u8] = include_bytes!("gsd_mock_copy.gsd");

// ------------------------------------------------------------------------------------------ dumps

fn hs(s: &str) -> String {
    hex(s.as_bytes())
}
fn b(x: bool) -> &'static str {
    if x {
        "1"
    } else {
        "0"
    }
}
fn opt_s(o: &Option<String>) -> String {
    match o {
        None => "N".into(),
        Some(s) => format!("S{}", hs(s)),
    }
}

fn dump_def(d: &gp::UserPrmDataDefinition) -> String {
    let ty = match d.data_type {
        gp::UserPrmDataType::Unsigned8 => "U8".to_string(),
        gp::UserPrmDataType::Unsigned16 => "U16".to_string(),
        gp::UserPrmDataType::Unsigned32 => "U32".to_string(),
        gp::UserPrmDataType::Signed8 => "S8".to_string(),
        gp::UserPrmDataType::Signed16 => "S16".to_string(),
        gp::UserPrmDataType::Signed32 => "S32".to_string(),
        gp::UserPrmDataType::Bit(n) => format!("B{}", n),
        gp::UserPrmDataType::BitArea(a, z) => format!("A{}.{}", a, z),
    };
    let c = match &d.constraint {
        gp::PrmValueConstraint::Unconstrained => "N".to_string(),
        gp::PrmValueConstraint::MinMax(a, z) => format!("R{}:{}", a, z),
        gp::PrmValueConstraint::Enum(v) => format!(
            "E{}",
            v.iter().map(|x| x.to_string()).collect::<Vec<_>>().join(":")
        ),
    };
    let t = match &d.text_ref {
        None => "N".to_string(),
        Some(m) => format!(
            "T[{}]",
            m.iter().map(|(k, v)| format!("{}={}", hs(k), v)).collect::<Vec<_>>().join("/")
        ),
    };
    format!("({},{},{},{},{},{},{})", hs(&d.name), ty, d.default_value, c, t, b(d.changeable), b(d.visible))
}

fn dump_prm(p: &gp::UserPrmData) -> String {
    format!(
        "({},[{}],[{}])",
        p.length,
        p.data_const.iter().map(|(o, v)| format!("{}:{}", o, hex(v))).collect::<Vec<_>>().join("/"),
        p.data_ref.iter().map(|(o, d)| format!("{}:{}", o, dump_def(d))).collect::<Vec<_>>().join("/")
    )
}

fn dump_module(m: &gp::Module) -> String {
    format!(
        "({},{},{},{},{})",
        hs(&m.name),
        opt_s(&m.info_text),
        hex(&m.config),
        m.reference.map(|r| r.to_string()).unwrap_or_else(|| "N".into()),
        dump_prm(&m.module_prm_data)
    )
}

fn module_index(g: &gp::GenericStationDescription, m: &Arc<gp::Module>) -> String {
    g.available_modules
        .iter()
        .position(|x| Arc::ptr_eq(x, m))
        .map(|i| i.to_string())
        .unwrap_or_else(|| "?".into())
}

fn dump_bits(m: &BTreeMap<u32, gp::UnitDiagBitInfo>) -> String {
    m.iter().map(|(k, v)| format!("{}:{}:{}", k, hs(&v.text), opt_s(&v.help))).collect::<Vec<_>>().join("/")
}

pub fn dump_desc(g: &gp::GenericStationDescription) -> String {
    let mut s = String::new();
    write!(
        s,
        "rev={};vendor={};model={};revision={};revnum={};ident={};hw={};sw={};impl={};",
        g.gsd_revision,
        hs(&g.vendor),
        hs(&g.model),
        hs(&g.revision),
        g.revision_number,
        g.ident_number,
        hs(&g.hardware_release),
        hs(&g.software_release),
        hs(&g.implementation_type)
    )
    .unwrap();
    write!(
        s,
        "freeze={};sync={};autobaud={};setaddr={};failsafe={};maxdiag={};modular={};maxmod={};maxin={};maxout={};maxdata={};",
        b(g.freeze_mode_supported),
        b(g.sync_mode_supported),
        b(g.auto_baud_supported),
        b(g.set_slave_addr_supported),
        b(g.fail_safe),
        g.max_diag_data_length,
        b(g.modular_station),
        g.max_modules,
        g.max_input_length,
        g.max_output_length,
        g.max_data_length
    )
    .unwrap();
    let t = &g.max_tsdr;
    write!(
        s,
        "speeds={};tsdr={}/{}/{}/{}/{}/{}/{}/{}/{}/{}/{};",
        g.supported_speeds.bits(),
        t.b9600,
        t.b19200,
        t.b31250,
        t.b45450,
        t.b93750,
        t.b187500,
        t.b500000,
        t.b1500000,
        t.b3000000,
        t.b6000000,
        t.b12000000
    )
    .unwrap();
    write!(
        s,
        "modules=[{}];",
        g.available_modules.iter().map(|m| dump_module(m)).collect::<Vec<_>>().join("/")
    )
    .unwrap();
    write!(
        s,
        "slots=[{}];",
        g.slots
            .iter()
            .map(|sl| format!(
                "({},{},{},[{}])",
                hs(&sl.name),
                sl.number,
                module_index(g, &sl.default),
                sl.allowed_modules.iter().map(|m| module_index(g, m)).collect::<Vec<_>>().join("/")
            ))
            .collect::<Vec<_>>()
            .join("/")
    )
    .unwrap();
    write!(s, "prm={};", dump_prm(&g.user_prm_data)).unwrap();
    write!(s, "bits=[{}];notbits=[{}];", dump_bits(&g.unit_diag.bits), dump_bits(&g.unit_diag.not_bits)).unwrap();
    write!(
        s,
        "areas=[{}]",
        g.unit_diag
            .areas
            .iter()
            .map(|a| format!(
                "{}:{}:[{}]",
                a.first,
                a.last,
                a.values.iter().map(|(k, v)| format!("{}={}", k, hs(v))).collect::<Vec<_>>().join("/")
            ))
            .collect::<Vec<_>>()
            .join("/")
    )
    .unwrap();
    s
}

fn dump_pair(p: pest::iterators::Pair<'_, own::Rule>, out: &mut String) {
    write!(out, "{:?}", p.as_rule()).unwrap();
    let text = p.as_str();
    let mut inner = p.into_inner().peekable();
    if inner.peek().is_none() {
        out.push(':');
        out.push_str(&hex(text.as_bytes()));
    } else {
        out.push('(');
        let mut first = true;
        for c in inner {
            if !first {
                out.push(',');
            }
            first = false;
            dump_pair(c, out);
        }
        out.push(')');
    }
}

fn dump_tree(text: &str) -> String {
    use pest::Parser;
    match own::OwnParser::parse(own::Rule::gsd, text) {
        Err(_) => "NOTREE".to_string(),
        Ok(mut pairs) => {
            let mut s = String::new();
            match pairs.next() {
                Some(p) => dump_pair(p, &mut s),
                None => s.push_str("NOTREE"),
            }
            s
        }
    }
}

// ------------------------------------------------------------------------------------------ running the real parser

pub fn run_text(bytes: &[u8]) -> String {
    // exactly what gsd_parser::parse_from_file does with the file content
    let text = String::from_utf8_lossy(bytes).into_owned();
    let path = std::path::PathBuf::from("case.gsd");
    let r = guarded(|| {
        let (res, warnings) = gp::parser::parse_with_warnings(&path, &text);
        // the second entry point must agree (it shares parse_inner); errors and warnings are formatted
        // as the crate's own tests do, so that a panic while rendering an error is seen as well
        let res2 = gp::parser::parse(&path, &text);
        for w in warnings.iter() {
            std::hint::black_box(format!("{}", w));
        }
        match (&res, &res2) {
            (Ok(a), Ok(b)) => assert!(a == b, "parse and parse_with_warnings disagree"),
            (Err(a), Err(_)) => {
                std::hint::black_box(format!("{}", a));
            }
            _ => panic!("parse and parse_with_warnings disagree"),
        }
        match res {
            Ok(g) => format!("OK {} {}", warnings.len(), dump_desc(&g)),
            Err(e) => match e.variant {
                pest::error::ErrorVariant::ParsingError { .. } => "ERR P".to_string(),
                pest::error::ErrorVariant::CustomError { .. } => "ERR C".to_string(),
            },
        }
    });
    let imp = match r {
        Ok(s) => s,
        Err(loc) => format!("PANIC {}", loc),
    };
    let tree = match guarded(|| dump_tree(&text)) {
        Ok(t) => t,
        Err(loc) => format!("TREEPANIC {}", loc),
    };
    format!("{} ## {}", imp, tree)
}

pub fn run_case(line: &str) -> String {
    let p: Vec<&str> = line.split_whitespace().collect();
    if p.len() < 2 {
        return "BADCASE".into();
    }
    run_text(&unhex(p[1]))
}

// ------------------------------------------------------------------------------------------ generation of descriptions

const SPEED_KEYS: [&str; 11] = [
    "9.6", "19.2", "31.25", "45.45", "93.75", "187.5", "500", "1.5M", "3M", "6M", "12M",
];
const TSDR_DEFAULT: [u16; 11] = [60, 60, 60, 60, 60, 60, 100, 150, 250, 450, 800];

/// SET cases stay inside the proved fragment: no back slash in string contents
static NO_BACKSLASH: std::sync::atomic::AtomicBool = std::sync::atomic::AtomicBool::new(false);

fn gen_string(r: &mut Rng) -> String {
    let no_bs = NO_BACKSLASH.load(std::sync::atomic::Ordering::Relaxed);
    let n = match r.below(10) {
        0 => 0,
        1..=6 => r.range(1, 10) as usize,
        _ => r.range(8, 30) as usize,
    };
    let mut s = String::new();
    let specials = [";", "=", "\\", "(", ")", ",", "#", "@", "-", "é", "ü", "€", "日本", "\u{212A}", "\t", "  ", "0x", "'"];
    for _ in 0..n {
        match r.below(20) {
            0 => {
                // a back slash directly before CR/LF would be a line continuation marker: avoided
                let c = *r.pick(&specials);
                if !(no_bs && c == "\\") {
                    s.push_str(c);
                }
            }
            1 => {
                if !s.ends_with('\\') && r.chance(1, 4) {
                    s.push_str(*r.pick(&["\n", "\r\n", "\r"]));
                } else {
                    s.push(' ');
                }
            }
            2 | 3 => s.push(' '),
            4..=8 => s.push((b'A' + r.below(26) as u8) as char),
            9..=11 => s.push((b'0' + r.below(10) as u8) as char),
            _ => s.push((b'a' + r.below(26) as u8) as char),
        }
    }
    s
}

fn gen_u(r: &mut Rng, max: u64) -> u64 {
    match r.below(8) {
        0 => 0,
        1 => max,
        2 => r.below(4).min(max),
        3 => max - r.below(3).min(max),
        _ => r.below(max + 1),
    }
}

fn gen_i64(r: &mut Rng) -> i64 {
    match r.below(12) {
        0 => 0,
        1 => i64::MAX,
        2 => i64::MIN,
        3 => -1,
        4 | 5 => r.range(-300, 300),
        6 => r.range(-70000, 70000),
        7 => r.next() as i64,
        _ => r.range(0, 255),
    }
}

fn gen_bytes_list(r: &mut Rng) -> Vec<u8> {
    let n = match r.below(6) {
        0 => 1,
        1 => r.range(10, 24) as usize,
        _ => r.range(1, 6) as usize,
    };
    (0..n).map(|_| gen_u(r, 255) as u8).collect()
}

fn gen_def(r: &mut Rng, texts: &[Arc<BTreeMap<String, i64>>]) -> gp::UserPrmDataDefinition {
    let data_type = match r.below(8) {
        0 => gp::UserPrmDataType::Unsigned8,
        1 => gp::UserPrmDataType::Unsigned16,
        2 => gp::UserPrmDataType::Unsigned32,
        3 => gp::UserPrmDataType::Signed8,
        4 => gp::UserPrmDataType::Signed16,
        5 => gp::UserPrmDataType::Signed32,
        6 => gp::UserPrmDataType::Bit(gen_u(r, 255) as u8),
        _ => gp::UserPrmDataType::BitArea(gen_u(r, 255) as u8, gen_u(r, 255) as u8),
    };
    let constraint = match r.below(3) {
        0 => gp::PrmValueConstraint::Unconstrained,
        1 => gp::PrmValueConstraint::MinMax(gen_i64(r), gen_i64(r)),
        _ => {
            let n = r.range(1, 5);
            gp::PrmValueConstraint::Enum((0..n).map(|_| gen_i64(r)).collect())
        }
    };
    let text_ref = if !texts.is_empty() && r.chance(1, 2) { Some(r.pick(texts).clone()) } else { None };
    gp::UserPrmDataDefinition {
        name: gen_string(r),
        data_type,
        default_value: gen_i64(r),
        constraint,
        text_ref,
        changeable: r.chance(3, 4),
        visible: r.chance(3, 4),
    }
}

fn gen_prm_ext(r: &mut Rng, defs: &[Arc<gp::UserPrmDataDefinition>], length: u8) -> gp::UserPrmData {
    let mut p = gp::UserPrmData { length, data_const: vec![], data_ref: vec![] };
    for _ in 0..r.below(3) {
        let max = if r.chance(1, 8) { u32::MAX as u64 } else { 40 };
        let off = gen_u(r, max) as usize;
        p.data_const.push((off, gen_bytes_list(r)));
    }
    if !defs.is_empty() {
        for _ in 0..r.below(4) {
            p.data_ref.push((gen_u(r, 40) as usize, r.pick(defs).clone()));
        }
    }
    p
}

/// A random description that lies in the image of the parser (so that an exact round trip is possible),
/// plus `ext_marker`: whether the top-level user parameter data is written in the Ext_ style.
pub struct GenDesc {
    pub d: gp::GenericStationDescription,
    pub legacy: bool,
    /// (first,last) for a range slot, or the list of references for a set slot
    pub slot_specs: Vec<Result<(u16, u16), Vec<u16>>>,
    pub slot_default_ref: Vec<u16>,
    pub settings_only: bool,
}

pub fn gen_desc(r: &mut Rng, settings_only: bool) -> GenDesc {
    // (strings of settings-only files may contain back slashes again: the string theorem covers them)
    NO_BACKSLASH.store(false, std::sync::atomic::Ordering::Relaxed);
    let mut d = gp::GenericStationDescription::default();
    let p_set = r.range(2, 9) as u64; // probability (of 10) that a scalar differs from its default
    let mut on = |r: &mut Rng| r.below(10) < p_set;
    if on(r) {
        d.gsd_revision = gen_u(r, 255) as u8;
    }
    if on(r) {
        d.vendor = gen_string(r);
    }
    if on(r) {
        d.model = gen_string(r);
    }
    if on(r) {
        d.revision = gen_string(r);
    }
    if on(r) {
        d.revision_number = gen_u(r, 255) as u8;
    }
    if on(r) {
        d.ident_number = gen_u(r, 65535) as u16;
    }
    if on(r) {
        d.hardware_release = gen_string(r);
    }
    if on(r) {
        d.software_release = gen_string(r);
    }
    if on(r) {
        d.implementation_type = gen_string(r);
    }
    d.freeze_mode_supported = on(r) && r.chance(1, 2);
    d.sync_mode_supported = on(r) && r.chance(1, 2);
    d.auto_baud_supported = on(r) && r.chance(1, 2);
    d.set_slave_addr_supported = on(r) && r.chance(1, 2);
    d.fail_safe = on(r) && r.chance(1, 2);
    if on(r) {
        d.max_diag_data_length = gen_u(r, 255) as u8;
    }
    // (Modular_Station / Max_Module are outside the proved settings fragment: SET files do not use them)
    d.modular_station = !settings_only && r.chance(1, 2);
    d.max_modules = if d.modular_station && r.chance(3, 4) { gen_u(r, 255) as u8 } else { 1 };
    if on(r) {
        d.max_input_length = gen_u(r, 255) as u8;
    }
    if on(r) {
        d.max_output_length = gen_u(r, 255) as u8;
    }
    if on(r) {
        d.max_data_length = gen_u(r, 65535) as u16;
    }
    let mut bits = 0u16;
    for i in 0..11 {
        if r.chance(1, 2) {
            bits |= 1 << (i + 1);
        }
    }
    d.supported_speeds = gp::SupportedSpeeds::from_bits_truncate(bits);
    {
        let t = &mut d.max_tsdr;
        let fs: [&mut u16; 11] = [
            &mut t.b9600,
            &mut t.b19200,
            &mut t.b31250,
            &mut t.b45450,
            &mut t.b93750,
            &mut t.b187500,
            &mut t.b500000,
            &mut t.b1500000,
            &mut t.b3000000,
            &mut t.b6000000,
            &mut t.b12000000,
        ];
        for f in fs {
            if r.chance(1, 2) {
                *f = gen_u(r, 65535) as u16;
            }
        }
    }
    if settings_only {
        return GenDesc { d, legacy: true, slot_specs: vec![], slot_default_ref: vec![], settings_only };
    }
    let mut slot_specs = vec![];
    let mut slot_default_ref = vec![];
    let d = &mut d;
    // parameter texts and definitions
    let mut texts = vec![];
    for _ in 0..r.below(4) {
        let mut m = BTreeMap::new();
        for _ in 0..r.range(1, 5) {
            m.insert(gen_string(r), gen_i64(r));
        }
        texts.push(Arc::new(m));
    }
    let mut defs = vec![];
    for _ in 0..r.below(5) {
        defs.push(Arc::new(gen_def(r, &texts)));
    }
    // user parameter data: legacy or Ext style
    let legacy = r.chance(1, 3);
    if legacy {
        if r.chance(2, 3) {
            let len = gen_u(r, 255) as u8;
            d.user_prm_data.length = len;
            for _ in 0..r.below(3) {
                let n = if len == 0 { 0 } else { r.range(1, (len as i64).min(24)) as usize };
                if n > 0 {
                    d.user_prm_data.data_const.push((0, (0..n).map(|_| gen_u(r, 255) as u8).collect()));
                }
            }
        } else if r.chance(1, 2) {
            d.user_prm_data.data_const.push((0, gen_bytes_list(r)));
        }
    } else {
        d.user_prm_data = gen_prm_ext(r, &defs, 0);
    }
    // modules (unique reference numbers so that slots are reconstructible)
    let nmod = match r.below(6) {
        0 => 0,
        1 => 1,
        _ => r.range(1, 6),
    };
    let mut used = std::collections::BTreeSet::new();
    for _ in 0..nmod {
        let reference = if r.chance(4, 5) {
            let mut v = if r.chance(1, 10) { gen_u(r, u32::MAX as u64) as u32 } else { r.range(0, 12) as u32 };
            while used.contains(&v) {
                v = v.wrapping_add(1);
            }
            used.insert(v);
            Some(v)
        } else {
            None
        };
        let mlen = if r.chance(1, 2) { gen_u(r, 255) as u8 } else { 0 };
        let m = gp::Module {
            name: gen_string(r),
            info_text: if r.chance(1, 2) { Some(gen_string(r)) } else { None },
            config: gen_bytes_list(r),
            reference,
            module_prm_data: gen_prm_ext(r, &defs, mlen),
        };
        d.available_modules.push(Arc::new(m));
    }
    // slots
    let with_ref: Vec<usize> = (0..d.available_modules.len())
        .filter(|i| matches!(d.available_modules[*i].reference, Some(x) if x <= 65535))
        .collect();
    if !with_ref.is_empty() {
        for _ in 0..r.below(4) {
            let di = *r.pick(&with_ref);
            let dref = d.available_modules[di].reference.unwrap() as u16;
            let find = |d: &gp::GenericStationDescription, x: u16| {
                d.available_modules.iter().find(|m| m.reference == Some(x as u32)).cloned()
            };
            let (spec, allowed) = if r.chance(1, 2) {
                let a = gen_u(r, 14) as u16;
                let z = if r.chance(1, 8) { gen_u(r, 14) as u16 } else { a + r.below(8) as u16 };
                let allowed: Vec<_> = (a..=z).filter_map(|x| find(d, x)).collect();
                (Ok((a, z)), allowed)
            } else {
                let n = r.range(1, 5);
                let refs: Vec<u16> = (0..n)
                    .map(|_| if r.chance(3, 4) { d.available_modules[*r.pick(&with_ref)].reference.unwrap() as u16 } else { gen_u(r, 20) as u16 })
                    .collect();
                let allowed: Vec<_> = refs.iter().filter_map(|x| find(d, *x)).collect();
                (Err(refs), allowed)
            };
            d.slots.push(gp::Slot {
                name: gen_string(r),
                number: gen_u(r, 255) as u8,
                default: d.available_modules[di].clone(),
                allowed_modules: allowed,
            });
            slot_specs.push(spec);
            slot_default_ref.push(dref);
        }
    }
    // unit diagnostics
    for _ in 0..r.below(5) {
        let k = if r.chance(1, 10) { gen_u(r, u32::MAX as u64) as u32 } else { r.below(40) as u32 };
        let e = d.unit_diag.bits.entry(k).or_default();
        e.text = gen_string(r);
        if r.chance(1, 3) {
            e.help = Some(gen_string(r));
        }
    }
    for _ in 0..r.below(3) {
        let k = r.below(40) as u32;
        let e = d.unit_diag.not_bits.entry(k).or_default();
        e.text = gen_string(r);
        if r.chance(1, 3) {
            e.help = Some(gen_string(r));
        }
    }
    for _ in 0..r.below(3) {
        let mut values = BTreeMap::new();
        for _ in 0..r.range(1, 4) {
            values.insert(gen_u(r, 65535) as u16, gen_string(r));
        }
        d.unit_diag.areas.push(gp::UnitDiagArea { first: gen_u(r, 65535) as u16, last: gen_u(r, 65535) as u16, values });
    }
    GenDesc { d: d.clone(), legacy, slot_specs, slot_default_ref, settings_only }
}

// ------------------------------------------------------------------------------------------ pretty printer with lexical variation

pub struct Style {
    nl: u8,        // 0 LF, 1 CRLF, 2 mixed, 3 mixed incl. lone CR
    case_p: u64,   // of 10: probability of flipping the case of a keyword character
    space_p: u64,  // of 10: probability of optional white space at a token boundary
    comment_p: u64, // of 10: comment at a line end
    cont_p: u64,   // of 100: line continuation inside white space / strings
    hex_p: u64,    // of 10: hexadecimal numbers
    preamble: bool,
    junk_p: u64, // of 10: ignored settings / blocks between statements
}

pub fn gen_style(r: &mut Rng) -> Style {
    if r.chance(1, 6) {
        // plain style
        return Style { nl: 0, case_p: 0, space_p: 0, comment_p: 0, cont_p: 0, hex_p: 0, preamble: false, junk_p: 0 };
    }
    Style {
        nl: r.below(4) as u8,
        case_p: *r.pick(&[0, 0, 3, 5, 10]),
        space_p: *r.pick(&[0, 2, 5, 9]),
        comment_p: *r.pick(&[0, 1, 3, 6]),
        cont_p: *r.pick(&[0, 0, 2, 10, 25]),
        hex_p: *r.pick(&[0, 3, 5, 10]),
        preamble: r.chance(1, 2),
        junk_p: *r.pick(&[0, 0, 1, 3]),
    }
}

struct Pr<'a> {
    r: &'a mut Rng,
    st: &'a Style,
    out: String,
}

impl<'a> Pr<'a> {
    fn newline(&mut self) -> &'static str {
        match self.st.nl {
            0 => "\n",
            1 => "\r\n",
            2 => *self.r.pick(&["\n", "\r\n"]),
            _ => *self.r.pick(&["\n", "\r\n", "\n", "\r\n", "\r"]),
        }
    }
    /// a keyword / key / type name (matched case-insensitively by grammar or parser)
    fn kw(&mut self, k: &str) {
        for c in k.chars() {
            if self.st.case_p > 0 && self.r.below(10) < self.st.case_p {
                if c.is_ascii_lowercase() {
                    self.out.push(c.to_ascii_uppercase());
                } else {
                    self.out.push(c.to_ascii_lowercase());
                }
            } else {
                self.out.push(c);
            }
        }
    }
    fn blanks(&mut self, min: usize) {
        let mut n = min;
        if self.st.space_p > 0 && self.r.below(10) < self.st.space_p {
            n += self.r.range(1, 3) as usize;
        }
        for _ in 0..n {
            if self.st.space_p > 0 && self.r.chance(1, 4) {
                self.out.push('\t');
            } else {
                self.out.push(' ');
            }
        }
        if self.st.cont_p > 0 && self.r.below(100) < self.st.cont_p {
            // a line continuation is white space
            self.out.push('\\');
            let nl = self.newline();
            self.out.push_str(nl);
            // (a lone CR must not be followed by the LF of a real line break: CR LF is ONE newline)
            if nl == "\r" || self.r.chance(1, 2) {
                self.out.push_str(*self.r.pick(&[" ", "\t", "    "]));
            }
        }
    }
    /// optional white space between tokens
    fn sp(&mut self) {
        self.blanks(0)
    }
    /// mandatory white space (between two adjacent number/identifier tokens)
    fn sp1(&mut self) {
        self.blanks(1)
    }
    fn tok(&mut self, t: &str) {
        self.out.push_str(t);
    }
    fn unum(&mut self, v: u64) {
        if self.st.hex_p > 0 && self.r.below(10) < self.st.hex_p {
            let s = if self.r.chance(1, 2) { format!("{:x}", v) } else { format!("{:X}", v) };
            let z = if self.r.chance(1, 6) { "00" } else { "" };
            write!(self.out, "0x{}{}", z, s).unwrap();
        } else {
            if self.st.hex_p > 0 && self.r.chance(1, 8) {
                self.out.push_str("00");
            }
            write!(self.out, "{}", v).unwrap();
        }
    }
    fn inum(&mut self, v: i64) {
        if v >= 0 {
            self.unum(v as u64)
        } else {
            write!(self.out, "{}", v).unwrap();
        }
    }
    fn boolean(&mut self, v: bool) {
        if !v {
            self.unum(0)
        } else if self.r.chance(1, 6) {
            let x = self.r.range(2, 70000) as u64;
            self.unum(x)
        } else {
            self.unum(1)
        }
    }
    fn string(&mut self, s: &str) {
        self.out.push('"');
        for c in s.chars() {
            if self.st.cont_p > 0 && self.r.below(200) < self.st.cont_p {
                self.out.push('\\');
                let nl = *self.r.pick(&["\n", "\r\n"]);
                self.out.push_str(nl);
            }
            self.out.push(c);
        }
        if self.st.cont_p > 0 && self.r.below(200) < self.st.cont_p {
            self.out.push_str("\\\n");
        }
        self.out.push('"');
    }
    fn comment_text(&mut self) {
        self.out.push(';');
        let n = self.r.below(20);
        for _ in 0..n {
            let c = match self.r.below(12) {
                0 => ';',
                1 => '"',
                2 => '\\',
                3 => '=',
                4 => ' ',
                5 => 'é',
                6 => '#',
                _ => (b'a' + self.r.below(26) as u8) as char,
            };
            self.out.push(c);
        }
    }
    /// end of a line: optional blanks + comment, the line break, optional blank / comment lines
    fn eol(&mut self) {
        self.sp();
        if self.st.comment_p > 0 && self.r.below(10) < self.st.comment_p {
            self.comment_text();
        }
        let nl = self.newline();
        self.out.push_str(nl);
        while self.st.comment_p + self.st.space_p > 0 && self.r.chance(1, 6) {
            if self.r.chance(1, 2) {
                self.sp();
            }
            if self.st.comment_p > 0 && self.r.chance(1, 2) {
                self.comment_text();
            }
            let nl = self.newline();
            self.out.push_str(nl);
        }
    }
    fn list_u8(&mut self, v: &[u8]) {
        for (i, x) in v.iter().enumerate() {
            if i > 0 {
                self.sp();
                self.tok(",");
                self.sp();
            }
            self.unum(*x as u64);
        }
    }
    /// `Key = ` resp. `Key(n) = `
    fn key(&mut self, k: &str, idx: Option<u64>) {
        self.kw(k);
        if let Some(i) = idx {
            self.sp();
            self.tok("(");
            self.sp();
            self.unum(i);
            self.sp();
            self.tok(")");
        }
        self.sp();
        self.tok("=");
        self.sp();
    }
}

/// One statement of the output file = a closure-free description of what to print.
enum Stmt {
    Num(&'static str, u64),
    Str(&'static str, String),
    Bool(&'static str, bool),
    KeyNum(String, u64),
    KeyBool(String, bool),
    Text(u16, Arc<BTreeMap<String, i64>>),
    Def(u32, Arc<gp::UserPrmDataDefinition>, Option<u16>),
    PrmConst(usize, Vec<u8>),
    PrmRef(usize, u32),
    MaxUserPrmLen(u64),
    LegacyLen(u64),
    LegacyData(Vec<u8>),
    Module(Arc<gp::Module>, Vec<u32>),
    Slots(Vec<(String, u8, u16, Result<(u16, u16), Vec<u16>>)>),
    DiagBit(&'static str, u32, String),
    Area(gp::UnitDiagArea),
    Junk,
}

fn interleave<T>(r: &mut Rng, a: Vec<T>, b: Vec<T>) -> Vec<T> {
    let mut out = Vec::with_capacity(a.len() + b.len());
    let (mut a, mut b) = (a.into_iter().peekable(), b.into_iter().peekable());
    loop {
        let (na, nb) = (a.len() as u64, b.len() as u64);
        if na + nb == 0 {
            break;
        }
        if r.below(na + nb) < na {
            out.push(a.next().unwrap());
        } else {
            out.push(b.next().unwrap());
        }
    }
    out
}

fn shuffle<T>(r: &mut Rng, v: &mut Vec<T>) {
    for i in (1..v.len()).rev() {
        let j = r.below(i as u64 + 1) as usize;
        v.swap(i, j);
    }
}

fn def_id(defs: &mut Vec<(u32, Arc<gp::UserPrmDataDefinition>)>, r: &mut Rng, d: &Arc<gp::UserPrmDataDefinition>) -> u32 {
    if let Some((id, _)) = defs.iter().find(|(_, x)| **x == **d) {
        return *id;
    }
    let mut id = if r.chance(1, 10) { gen_u(r, u32::MAX as u64) as u32 } else { r.range(0, 30) as u32 };
    while defs.iter().any(|(i, _)| *i == id) {
        id = id.wrapping_add(1);
    }
    defs.push((id, d.clone()));
    id
}

pub fn render(r: &mut Rng, g: &GenDesc, st: &Style) -> String {
    let d = &g.d;
    let dflt = gp::GenericStationDescription::default();
    // ---- scalar settings (may be omitted when the value is the parser's default)
    let mut scalars: Vec<Stmt> = vec![];
    macro_rules! num {
        ($k:expr, $f:ident) => {
            if d.$f != dflt.$f || r.chance(1, 3) {
                scalars.push(Stmt::Num($k, d.$f as u64));
            }
        };
    }
    macro_rules! strs {
        ($k:expr, $f:ident) => {
            if d.$f != dflt.$f || r.chance(1, 3) {
                scalars.push(Stmt::Str($k, d.$f.clone()));
            }
        };
    }
    macro_rules! boolean {
        ($k:expr, $f:ident) => {
            if d.$f != dflt.$f || r.chance(1, 3) {
                scalars.push(Stmt::Bool($k, d.$f));
            }
        };
    }
    num!("GSD_Revision", gsd_revision);
    strs!("Vendor_Name", vendor);
    strs!("Model_Name", model);
    strs!("Revision", revision);
    num!("Revision_Number", revision_number);
    num!("Ident_Number", ident_number);
    strs!("Hardware_Release", hardware_release);
    strs!("Software_Release", software_release);
    strs!("Implementation_Type", implementation_type);
    boolean!("Freeze_Mode_supp", freeze_mode_supported);
    boolean!("Sync_Mode_supp", sync_mode_supported);
    boolean!("Auto_Baud_supp", auto_baud_supported);
    boolean!("Set_Slave_Add_supp", set_slave_addr_supported);
    boolean!("Fail_Safe", fail_safe);
    num!("Max_Diag_Data_Len", max_diag_data_length);
    num!("Max_Input_Len", max_input_length);
    num!("Max_Output_Len", max_output_length);
    num!("Max_Data_Len", max_data_length);
    if d.modular_station || (!g.settings_only && r.chance(1, 3)) {
        scalars.push(Stmt::Bool("Modular_Station", d.modular_station));
    }
    // a compact station has exactly one module whatever Max_Module says; a modular one needs the key
    // unless the value is the default 1
    if d.modular_station {
        if d.max_modules != 1 || r.chance(1, 2) {
            scalars.push(Stmt::Num("Max_Module", d.max_modules as u64));
        }
    } else if !g.settings_only && r.chance(1, 3) {
        scalars.push(Stmt::Num("Max_Module", 1));
    }
    let bits = d.supported_speeds.bits();
    let t = &d.max_tsdr;
    let tsdr = [
        t.b9600, t.b19200, t.b31250, t.b45450, t.b93750, t.b187500, t.b500000, t.b1500000, t.b3000000, t.b6000000,
        t.b12000000,
    ];
    for i in 0..11 {
        let set = bits & (1 << (i + 1)) != 0;
        if set || r.chance(1, 2) {
            scalars.push(Stmt::KeyBool(format!("{}_supp", SPEED_KEYS[i]), set));
        }
        if tsdr[i] != TSDR_DEFAULT[i] || r.chance(1, 3) {
            scalars.push(Stmt::KeyNum(format!("MaxTsdr_{}", SPEED_KEYS[i]), tsdr[i] as u64));
        }
    }
    shuffle(r, &mut scalars);

    // ---- parameter texts / definitions used anywhere
    let mut defs: Vec<(u32, Arc<gp::UserPrmDataDefinition>)> = vec![];
    let mut prm_lines: Vec<Stmt> = vec![];
    if g.legacy {
        let p = &d.user_prm_data;
        let mut lines = vec![];
        for (_, v) in p.data_const.iter() {
            lines.push(Stmt::LegacyData(v.clone()));
        }
        // the length line may stand anywhere among the data lines (the parser checks both orders)
        if p.length != 0 || (p.data_const.is_empty() && !g.settings_only && r.chance(1, 2)) {
            let pos = r.below(lines.len() as u64 + 1) as usize;
            lines.insert(pos, Stmt::LegacyLen(p.length as u64));
        }
        prm_lines = lines;
    } else {
        let p = &d.user_prm_data;
        let mut consts = vec![];
        for (o, v) in p.data_const.iter() {
            consts.push(Stmt::PrmConst(*o, v.clone()));
        }
        let mut refs = vec![];
        for (o, x) in p.data_ref.iter() {
            let id = def_id(&mut defs, r, x);
            refs.push(Stmt::PrmRef(*o, id));
        }
        let mut lines = interleave(r, consts, refs);
        if lines.is_empty() || r.chance(1, 2) {
            let pos = r.below(lines.len() as u64 + 1) as usize;
            lines.insert(pos, Stmt::MaxUserPrmLen(gen_u(r, 255)));
        }
        // ignored legacy lines (as in mock.gsd): consistent with each other so that no length check fires
        if r.chance(1, 3) {
            let n = r.range(1, 5) as usize;
            let pos = r.below(lines.len() as u64 + 1) as usize;
            lines.insert(pos, Stmt::LegacyData((0..n).map(|_| r.byte()).collect()));
            if r.chance(1, 2) {
                lines.insert(pos, Stmt::LegacyLen(n as u64 + r.below(3)));
            }
        }
        prm_lines = lines;
    }
    let mut mods: Vec<Stmt> = vec![];
    for m in d.available_modules.iter() {
        let ids: Vec<u32> = m.module_prm_data.data_ref.iter().map(|(_, x)| def_id(&mut defs, r, x)).collect();
        mods.push(Stmt::Module(m.clone(), ids));
    }
    // slots: split over one or more SlotDefinition blocks
    let mut slot_items = vec![];
    for (i, s) in d.slots.iter().enumerate() {
        slot_items.push((s.name.clone(), s.number, g.slot_default_ref[i], g.slot_specs[i].clone()));
    }
    while !slot_items.is_empty() {
        let n = r.range(1, slot_items.len() as i64) as usize;
        let rest = slot_items.split_off(n);
        mods.push(Stmt::Slots(slot_items));
        slot_items = rest;
    }
    if d.slots.is_empty() && !g.settings_only && r.chance(1, 6) {
        mods.push(Stmt::Slots(vec![]));
    }
    let mut texts: Vec<(u16, Arc<BTreeMap<String, i64>>)> = vec![];
    let mut head: Vec<Stmt> = vec![];
    let mut def_stmts = vec![];
    shuffle(r, &mut defs);
    for (id, x) in defs.iter() {
        let tid = match &x.text_ref {
            None => None,
            Some(m) => Some(match texts.iter().find(|(_, y)| **y == **m) {
                Some((i, _)) => *i,
                None => {
                    let mut i = if r.chance(1, 10) { gen_u(r, 65535) as u16 } else { r.range(0, 20) as u16 };
                    while texts.iter().any(|(j, _)| *j == i) {
                        i = i.wrapping_add(1);
                    }
                    texts.push((i, m.clone()));
                    i
                }
            }),
        };
        def_stmts.push(Stmt::Def(*id, x.clone(), tid));
    }
    for (i, m) in texts {
        head.push(Stmt::Text(i, m));
    }
    head.extend(def_stmts);
    // ---- unit diagnostics
    let mut diag: Vec<Stmt> = vec![];
    for (k, v) in d.unit_diag.bits.iter() {
        if !v.text.is_empty() || v.help.is_none() || r.chance(1, 2) {
            diag.push(Stmt::DiagBit("Unit_Diag_Bit", *k, v.text.clone()));
        }
        if let Some(h) = &v.help {
            diag.push(Stmt::DiagBit("Unit_Diag_Bit_Help", *k, h.clone()));
        }
    }
    for (k, v) in d.unit_diag.not_bits.iter() {
        if !v.text.is_empty() || v.help.is_none() || r.chance(1, 2) {
            diag.push(Stmt::DiagBit("Unit_Diag_Not_Bit", *k, v.text.clone()));
        }
        if let Some(h) = &v.help {
            diag.push(Stmt::DiagBit("Unit_Diag_Not_Bit_Help", *k, h.clone()));
        }
    }
    shuffle(r, &mut diag);
    let areas: Vec<Stmt> = d.unit_diag.areas.iter().map(|a| Stmt::Area(a.clone())).collect();
    let diag = interleave(r, diag, areas);
    // ---- order: texts, definitions, then everything else interleaved; scalars and junk anywhere
    let body = interleave(r, prm_lines, mods);
    let body = interleave(r, body, diag);
    head.extend(body);
    let mut all = interleave(r, head, scalars);
    if st.junk_p > 0 {
        let n = r.below(st.junk_p + 1) as usize;
        let junk: Vec<Stmt> = (0..n).map(|_| Stmt::Junk).collect();
        all = interleave(r, all, junk);
    }
    if all.is_empty() {
        // the grammar wants at least one statement
        all.push(Stmt::Num("GSD_Revision", d.gsd_revision as u64));
    }

    // ---- print
    let mut p = Pr { r, st, out: String::new() };
    if st.preamble {
        let n = p.r.range(1, 4);
        for _ in 0..n {
            match p.r.below(5) {
                0 => p.comment_text(),
                1 => p.tok("#Profibus_DP something else"),
                2 => p.tok("  some \"text\" = 5 \\"),
                3 => p.tok("GSD_Revision = 77"),
                _ => {}
            }
            let nl = p.newline();
            p.out.push_str(nl);
        }
    }
    p.tok("#");
    p.kw("Profibus_DP");
    let nl = p.newline();
    p.out.push_str(nl);
    if p.st.comment_p + p.st.space_p > 0 && p.r.chance(1, 3) {
        p.eol();
    }
    let n_all = all.len();
    for (si, s) in all.into_iter().enumerate() {
        match s {
            Stmt::Num(k, v) => {
                p.key(k, None);
                p.unum(v);
            }
            Stmt::KeyNum(k, v) => {
                p.key(&k, None);
                p.unum(v);
            }
            Stmt::Str(k, v) => {
                p.key(k, None);
                p.string(&v);
            }
            Stmt::Bool(k, v) => {
                p.key(k, None);
                p.boolean(v);
            }
            Stmt::KeyBool(k, v) => {
                p.key(&k, None);
                p.boolean(v);
            }
            Stmt::Text(id, m) => {
                p.kw("PrmText");
                p.sp();
                p.tok("=");
                p.sp();
                p.unum(id as u64);
                p.eol();
                for (k, v) in m.iter() {
                    p.kw("Text");
                    p.sp();
                    p.tok("(");
                    p.sp();
                    p.inum(*v);
                    p.sp();
                    p.tok(")");
                    p.sp();
                    p.tok("=");
                    p.sp();
                    p.string(k);
                    p.eol();
                }
                p.kw("EndPrmText");
            }
            Stmt::Def(id, x, tid) => {
                p.kw("ExtUserPrmData");
                p.sp();
                p.tok("=");
                p.sp();
                p.unum(id as u64);
                p.sp1();
                p.string(&x.name);
                p.eol();
                match x.data_type {
                    gp::UserPrmDataType::Unsigned8 => p.kw("Unsigned8"),
                    gp::UserPrmDataType::Unsigned16 => p.kw("Unsigned16"),
                    gp::UserPrmDataType::Unsigned32 => p.kw("Unsigned32"),
                    gp::UserPrmDataType::Signed8 => p.kw("Signed8"),
                    gp::UserPrmDataType::Signed16 => p.kw("Signed16"),
                    gp::UserPrmDataType::Signed32 => p.kw("Signed32"),
                    gp::UserPrmDataType::Bit(n) => {
                        p.kw("Bit");
                        p.sp();
                        p.tok("(");
                        p.sp();
                        p.unum(n as u64);
                        p.sp();
                        p.tok(")");
                    }
                    gp::UserPrmDataType::BitArea(a, z) => {
                        p.kw("BitArea");
                        p.sp();
                        p.tok("(");
                        p.sp();
                        p.unum(a as u64);
                        p.sp();
                        p.tok("-");
                        p.sp();
                        p.unum(z as u64);
                        p.sp();
                        p.tok(")");
                    }
                }
                p.sp1();
                p.inum(x.default_value);
                match &x.constraint {
                    gp::PrmValueConstraint::Unconstrained => {}
                    gp::PrmValueConstraint::MinMax(a, z) => {
                        p.sp1();
                        p.inum(*a);
                        p.sp();
                        p.tok("-");
                        p.sp();
                        p.inum(*z);
                    }
                    gp::PrmValueConstraint::Enum(v) => {
                        p.sp1();
                        for (i, e) in v.iter().enumerate() {
                            if i > 0 {
                                p.sp();
                                p.tok(",");
                                p.sp();
                            }
                            p.inum(*e);
                        }
                    }
                }
                p.eol();
                if let Some(t) = tid {
                    p.key("Prm_Text_Ref", None);
                    p.unum(t as u64);
                    p.eol();
                }
                if !x.changeable || p.r.chance(1, 3) {
                    p.key("Changeable", None);
                    p.boolean(x.changeable);
                    p.eol();
                }
                if !x.visible || p.r.chance(1, 3) {
                    p.key("Visible", None);
                    p.boolean(x.visible);
                    p.eol();
                }
                p.kw("EndExtUserPrmData");
            }
            Stmt::PrmConst(o, v) => {
                p.key("Ext_User_Prm_Data_Const", Some(o as u64));
                p.list_u8(&v);
            }
            Stmt::PrmRef(o, id) => {
                p.key("Ext_User_Prm_Data_Ref", Some(o as u64));
                p.unum(id as u64);
            }
            Stmt::MaxUserPrmLen(v) => {
                p.key("Max_User_Prm_Data_Len", None);
                p.unum(v);
            }
            Stmt::LegacyLen(v) => {
                p.key("User_Prm_Data_Len", None);
                p.unum(v);
            }
            Stmt::LegacyData(v) => {
                p.key("User_Prm_Data", None);
                p.list_u8(&v);
            }
            Stmt::Module(m, ids) => {
                p.kw("Module");
                p.sp();
                p.tok("=");
                p.sp();
                p.string(&m.name);
                p.sp();
                p.list_u8(&m.config);
                p.eol();
                // the settings of a module may stand before the reference number, after it, or after the data areas
                let mut items: Vec<(u8, usize)> = vec![];
                for i in 0..m.module_prm_data.data_const.len() {
                    items.push((0, i));
                }
                let refs: Vec<(u8, usize)> = (0..m.module_prm_data.data_ref.len()).map(|i| (1, i)).collect();
                let mut items = interleave(p.r, items, refs);
                if m.module_prm_data.length != 0 || p.r.chance(1, 3) {
                    let pos = p.r.below(items.len() as u64 + 1) as usize;
                    items.insert(pos, (2, 0));
                }
                if m.info_text.is_some() {
                    let pos = p.r.below(items.len() as u64 + 1) as usize;
                    items.insert(pos, (3, 0));
                }
                if p.st.junk_p > 0 && p.r.chance(1, 3) {
                    let pos = p.r.below(items.len() as u64 + 1) as usize;
                    items.insert(pos, (4, 0));
                }
                let cut1 = p.r.below(items.len() as u64 + 1) as usize;
                let cut2 = cut1 + p.r.below((items.len() - cut1) as u64 + 1) as usize;
                let with_area = p.st.junk_p > 0 && p.r.chance(1, 4);
                for (i, (kind, idx)) in items.iter().enumerate() {
                    if i == cut1 {
                        if let Some(x) = m.reference {
                            p.unum(x as u64);
                            p.eol();
                        }
                    }
                    if i == cut2 && with_area {
                        p.kw("Data_Area_Beg");
                        p.eol();
                        p.key("Area_Name", None);
                        p.string("area");
                        p.eol();
                        p.kw("Data_Area_End");
                        p.eol();
                    }
                    match kind {
                        0 => {
                            let (o, v) = &m.module_prm_data.data_const[*idx];
                            p.key("Ext_User_Prm_Data_Const", Some(*o as u64));
                            p.list_u8(v);
                        }
                        1 => {
                            let (o, _) = &m.module_prm_data.data_ref[*idx];
                            p.key("Ext_User_Prm_Data_Ref", Some(*o as u64));
                            p.unum(ids[*idx] as u64);
                        }
                        2 => {
                            p.key("Ext_Module_Prm_Data_Len", None);
                            p.unum(m.module_prm_data.length as u64);
                        }
                        3 => {
                            p.key("Info_Text", None);
                            let s = m.info_text.clone().unwrap();
                            p.string(&s);
                        }
                        _ => {
                            p.key("Some_Ignored_Key", None);
                            p.unum(5);
                        }
                    }
                    p.eol();
                }
                if cut1 == items.len() {
                    if let Some(x) = m.reference {
                        p.unum(x as u64);
                        p.eol();
                    }
                }
                if cut2 == items.len() && with_area {
                    p.kw("Data_Area_Beg");
                    p.eol();
                    p.kw("Data_Area_End");
                    p.eol();
                }
                p.kw("EndModule");
            }
            Stmt::Slots(items) => {
                p.kw("SlotDefinition");
                p.eol();
                for (name, number, dref, spec) in items {
                    p.kw("Slot");
                    p.sp();
                    p.tok("(");
                    p.sp();
                    p.unum(number as u64);
                    p.sp();
                    p.tok(")");
                    p.sp();
                    p.tok("=");
                    p.sp();
                    p.string(&name);
                    p.sp();
                    p.unum(dref as u64);
                    p.sp1();
                    match spec {
                        Ok((a, z)) => {
                            p.unum(a as u64);
                            p.sp();
                            p.tok("-");
                            p.sp();
                            p.unum(z as u64);
                        }
                        Err(v) => {
                            for (i, e) in v.iter().enumerate() {
                                if i > 0 {
                                    p.sp();
                                    p.tok(",");
                                    p.sp();
                                }
                                p.unum(*e as u64);
                            }
                        }
                    }
                    p.eol();
                }
                p.kw("EndSlotDefinition");
            }
            Stmt::DiagBit(k, n, text) => {
                p.key(k, Some(n as u64));
                p.string(&text);
            }
            Stmt::Area(a) => {
                p.kw("Unit_Diag_Area");
                p.sp();
                p.tok("=");
                p.sp();
                p.unum(a.first as u64);
                p.sp();
                p.tok("-");
                p.sp();
                p.unum(a.last as u64);
                p.eol();
                for (k, v) in a.values.iter() {
                    p.kw("Value");
                    p.sp();
                    p.tok("(");
                    p.sp();
                    p.unum(*k as u64);
                    p.sp();
                    p.tok(")");
                    p.sp();
                    p.tok("=");
                    p.sp();
                    p.string(v);
                    p.eol();
                }
                p.kw("Unit_Diag_Area_End");
            }
            // (settings-only files: only ignored `key = number | string` settings)
            Stmt::Junk => match if g.settings_only { *p.r.pick(&[1u64, 2, 3, 6]) } else { p.r.below(8) } {
                0 => {
                    p.key("Slave_Family", None);
                    p.tok("3@Some Family;0 = General");
                    // the family identifier runs to the end of the line: no comment after it
                    let nl = p.newline();
                    p.out.push_str(nl);
                    p.key("OrderNumber", None);
                    p.string("1234");
                }
                1 => {
                    p.key("Bitmap_Device", None);
                    p.string("NONE");
                }
                2 => {
                    p.key("24V_Pins", None);
                    p.unum(2);
                }
                3 => {
                    p.key("Min_Slave_Intervall", None);
                    p.unum(1);
                }
                4 => {
                    p.kw("UnitDiagType");
                    p.sp();
                    p.tok("=");
                    p.sp();
                    p.unum(129);
                    p.eol();
                    p.tok("X_Unit_Diag_Bit(24) = \"abc\"");
                    let nl = p.newline();
                    p.out.push_str(nl);
                    p.tok("X_Unit_Diag_Area = 24-31 ) ( = =");
                    let nl = p.newline();
                    p.out.push_str(nl);
                    p.kw("EndUnitDiagType");
                }
                5 => {
                    p.kw("Physical_Interface");
                    p.sp();
                    p.tok("=");
                    p.sp();
                    p.unum(0);
                    p.eol();
                    p.tok("Transmission_Delay_9.6 = 0");
                    let nl = p.newline();
                    p.out.push_str(nl);
                    p.kw("End_Physical_Interface");
                }
                6 => {
                    p.key("Module_Offset", None);
                    p.unum(1);
                }
                _ => {
                    p.key("Unknown_List(3)", None);
                    p.list_u8(&[1, 2, 3]);
                }
            },
        }
        if si + 1 < n_all || p.r.chance(4, 5) {
            p.eol();
        }
    }
    p.out
}

// ------------------------------------------------------------------------------------------ mutation

#[derive(Clone, Copy, PartialEq, Eq, Debug)]
enum Tk {
    Num,
    Str,
    Ident,
    Punct,
    Nl,
}

fn tokenize(t: &str) -> Vec<(usize, usize, Tk)> {
    let b = t.as_bytes();
    let mut v = vec![];
    let mut i = 0;
    while i < b.len() {
        let c = b[i];
        if c == b' ' || c == b'\t' {
            i += 1;
        } else if c == b'\n' || c == b'\r' {
            v.push((i, i + 1, Tk::Nl));
            i += 1;
        } else if c == b';' {
            while i < b.len() && b[i] != b'\n' && b[i] != b'\r' {
                i += 1;
            }
        } else if c == b'"' {
            let s = i;
            i += 1;
            while i < b.len() && b[i] != b'"' {
                i += 1;
            }
            i = (i + 1).min(b.len());
            v.push((s, i, Tk::Str));
        } else if c.is_ascii_digit() || (c == b'-' && i + 1 < b.len() && b[i + 1].is_ascii_digit()) {
            let s = i;
            i += 1;
            while i < b.len() && (b[i].is_ascii_alphanumeric() || b[i] == b'.' || b[i] == b'_') {
                i += 1;
            }
            let tok = &t[s..i];
            let is_num = tok.trim_start_matches('-').chars().all(|c| c.is_ascii_hexdigit() || c == 'x');
            v.push((s, i, if is_num { Tk::Num } else { Tk::Ident }));
        } else if c.is_ascii_alphabetic() || c == b'_' {
            let s = i;
            while i < b.len() && (b[i].is_ascii_alphanumeric() || b[i] == b'.' || b[i] == b'_') {
                i += 1;
            }
            v.push((s, i, Tk::Ident));
        } else if c < 0x80 {
            v.push((i, i + 1, Tk::Punct));
            i += 1;
        } else {
            // skip a whole UTF-8 sequence
            i += 1;
            while i < b.len() && (b[i] & 0xC0) == 0x80 {
                i += 1;
            }
        }
    }
    v
}

const NASTY_NUMS: &[&str] = &[
    "0", "1", "255", "256", "65535", "65536", "4294967295", "4294967296", "99999999999999999999", "0xFFFFFFFF",
    "0x100000000", "-9223372036854775808", "9223372036854775807", "9223372036854775808", "-9223372036854775809",
    "0x7fffffffffffffff", "0x8000000000000000", "0xffffffffffffffffff", "0x0", "00000000000000000000000001", "-1",
    "-0", "1.5", "-2.25", "0.0", "0x0x1", "0xg", "1e3", "12abc", "-",
];
const NASTY_VALUES: &[&str] = &["\"str\"", "\"\"", "1,2,3", "1,2,\\\n3", "0@family", "5@", "1-2", "(1)", "x", "", "\"open"];
const UNKNOWN_TYPES: &[&str] = &[
    "Unsigned64", "Float32", "Unsigned", "Signed", "OctetString", "Unsigned8x", "unsigned_8", "Bit", "BitArea", "U8",
    "\u{212A}", "Bit(300)", "BitArea(3)", "BitArea(7-300)", "Bit(1-2)",
];
const SNIPPETS: &[&str] = &[
    "Ext_User_Prm_Data_Ref(0) = 4711",
    "Ext_User_Prm_Data_Ref = 1",
    "Ext_User_Prm_Data_Ref(0) = \"x\"",
    "Ext_User_Prm_Data_Ref(0) = 1,2",
    "Ext_User_Prm_Data_Ref(1.5) = 1",
    "Ext_User_Prm_Data_Const = 1,2",
    "Ext_User_Prm_Data_Const = 1",
    "Ext_User_Prm_Data_Const(0) = \"x\"",
    "Ext_User_Prm_Data_Const(0) = 0@x",
    "Ext_User_Prm_Data_Const(0) = 1,2,300",
    "Ext_User_Prm_Data_Const(0) = 7",
    "Ext_User_Prm_Data_Const(\\\n0) = 7,\\\n8",
    "User_Prm_Data = \"x\"",
    "User_Prm_Data = 0@x",
    "User_Prm_Data = 1,2,3",
    "User_Prm_Data(1) = 1,2,3",
    "User_Prm_Data_Len = 1\nUser_Prm_Data = 1,2,3",
    "User_Prm_Data = 1,2,3\nUser_Prm_Data_Len = 2",
    "User_Prm_Data_Len = \"x\"",
    "Max_User_Prm_Data_Len = \"ignored\"",
    "Unit_Diag_Bit = \"x\"",
    "Unit_Diag_Bit(1) = 5",
    "Unit_Diag_Bit(1) = 1,2",
    "Unit_Diag_Bit_Help(1) = 0@x",
    "Unit_Diag_Bit_Help = 3",
    "Unit_Diag_Not_Bit(4294967296) = \"x\"",
    "Unit_Diag_Not_Bit_Help(\"a\") = \"x\"",
    "Unit_Diag_Not_Bit = 1",
    "Vendor_Name = 5",
    "Vendor_Name(3) = \"x\"",
    "Model_Name = 1,2",
    "Revision = 0@x",
    "GSD_Revision = \"x\"",
    "GSD_Revision = 1,2",
    "GSD_Revision = 256",
    "GSD_Revision(3) = \"x\"",
    "Ident_Number = 0@abc",
    "Ident_Number = 65536",
    "Fail_Safe = \"yes\"",
    "9.6_supp = \"1\"",
    "12M_supp = 2,3",
    "MaxTsdr_12M = -5",
    "MaxTsdr_500 = 1.5",
    "Modular_Station = \"1\"",
    "Max_Module = 300",
    "Max_Module = 7",
    "Modular_Station = 0\nMax_Module = 5",
    "Modular_Station = 1\nMax_Module = 0",
    "ExtUserPrmData=9 \"x\"\nFloat32 0\nEndExtUserPrmData",
    "ExtUserPrmData=9 \"x\"\nUnsigned8 0 1-2\nPrm_Text_Ref=999\nEndExtUserPrmData",
    "ExtUserPrmData=9 \"x\"\nBit(256) 0\nEndExtUserPrmData",
    "ExtUserPrmData=9 \"x\"\nBitArea(1-256) 0\nEndExtUserPrmData",
    "ExtUserPrmData=4294967296 \"x\"\nBit(1) 0\nEndExtUserPrmData",
    "ExtUserPrmData=9 \"x\"\nSigned8 0x8000000000000000\nEndExtUserPrmData",
    "ExtUserPrmData=9 \"x\"\nSigned8 0 1.5-2\nEndExtUserPrmData",
    "ExtUserPrmData=9 \"x\"\nSigned8 0 1,2.5\nEndExtUserPrmData",
    "ExtUserPrmData=9 \"x\"\nSigned8 0\nChangeable=\"x\"\nEndExtUserPrmData",
    "ExtUserPrmData=9 \"x\"\nSigned8 0\nVisible=1\nChangeable=1\nEndExtUserPrmData",
    "ExtUserPrmData=9 \"dup\"\nUnsigned8 1\nEndExtUserPrmData\nExtUserPrmData=9 \"dup2\"\nUnsigned16 2\nEndExtUserPrmData\nExt_User_Prm_Data_Ref(0)=9",
    "PrmText=1\nEndPrmText",
    "PrmText=70000\nText(0)=\"a\"\nEndPrmText",
    "PrmText=1\nText(0x8000000000000000)=\"a\"\nEndPrmText",
    "PrmText=1\nText(0)=\"a\"\nText(1)=\"a\"\nEndPrmText\nExtUserPrmData=8 \"t\"\nBit(0) 0\nPrm_Text_Ref=1\nEndExtUserPrmData\nExt_User_Prm_Data_Ref(0)=8",
    "Module=\"m\" 1\nEndModule",
    "Module=\"m\" 1\n\nInfo_Text=5\nEndModule",
    "Module=\"m\" 1\nExt_Module_Prm_Data_Len=\"x\"\nEndModule",
    "Module=\"m\" 1\nExt_Module_Prm_Data_Len=256\nEndModule",
    "Module=\"m\" 1\nExt_User_Prm_Data_Ref(0)=4711\nEndModule",
    "Module=\"m\" 1\nExt_User_Prm_Data_Ref=1\nEndModule",
    "Module=\"m\" 1\nExt_User_Prm_Data_Const=1\nEndModule",
    "Module=\"m\" 1\nExt_User_Prm_Data_Const(0)=\"x\"\nEndModule",
    "Module=\"m\" 1,300\nEndModule",
    "Module=\"m\" 1\n4294967296\nEndModule",
    "Module=\"m\" 1\n7\nEndModule\nModule=\"m2\" 2\n7\nEndModule\nSlotDefinition\nSlot(1)=\"s\" 7 7,7\nEndSlotDefinition",
    "Module=\"m\" 1\n3\nData_Area_Beg\nArea_Name=\"x\"\nData_Area_End\nEndModule",
    "Module=\"m\" 1\nEndModule\nEndModule",
    "SlotDefinition\nEndSlotDefinition",
    "SlotDefinition\nSlot(1)=\"s\" 1 1-3\nEndSlotDefinition",
    "SlotDefinition\nSlot(256)=\"s\" 1 1\nEndSlotDefinition",
    "SlotDefinition\nSlot(1)=\"s\" 65536 1\nEndSlotDefinition",
    "SlotDefinition\nSlot(1)=\"s\" 1 0-65536\nEndSlotDefinition",
    "SlotDefinition\nSlot(1)=\"s\" 1 5-2\nEndSlotDefinition",
    "Module=\"m\" 1\n1\nEndModule\nSlotDefinition\nSlot(1)=\"s\" 1 0-65535\nEndSlotDefinition",
    "Module=\"m\" 1\n1\nEndModule\nSlotDefinition\nSlot(1)=\"s\" 1 1,70000\nEndSlotDefinition",
    "Unit_Diag_Area=0-7\nValue(1)=\"x\"\nUnit_Diag_Area_End",
    "Unit_Diag_Area=0-70000\nValue(1)=\"x\"\nUnit_Diag_Area_End",
    "Unit_Diag_Area=0-7\nUnit_Diag_Area_End",
    "Unit_Diag_Area=0-7\nValue(1)=\"x\"\nValue(1)=\"y\"\nValue(65536)=\"z\"\nUnit_Diag_Area_End",
    "UnitDiagType=1\nEndUnitDiagType",
    "UnitDiagType=1\n\"\n",
    "Jokerblock_Type = 1\nanything ( \" = \nEnd_Jokerblock_Type",
    "Version_Firmware_Download\nEnd_Version_Firmware_Download",
    "Slave_Family=0@x",
    "X = 1 ; comment \\\n",
    "X = \\\n\\\n 1",
    "X(1)(2) = 3",
    "= 1",
    "X =",
    "X",
];

fn line_starts(t: &str) -> Vec<usize> {
    let mut v = vec![0];
    for (i, c) in t.bytes().enumerate() {
        if c == b'\n' {
            v.push(i + 1);
        }
    }
    v
}

fn marker_end(t: &str) -> usize {
    let l = t.to_ascii_lowercase();
    match l.find("#profibus_dp") {
        Some(i) => match t[i..].find('\n') {
            Some(j) => i + j + 1,
            None => t.len(),
        },
        None => 0,
    }
}

fn floor_boundary(t: &str, mut i: usize) -> usize {
    while i > 0 && !t.is_char_boundary(i) {
        i -= 1;
    }
    i
}

fn mutate_once(r: &mut Rng, t: &str) -> String {
    let toks = tokenize(t);
    let body = marker_end(t);
    let pick_tok = |r: &mut Rng, k: Tk| -> Option<(usize, usize)> {
        let c: Vec<_> = toks.iter().filter(|x| x.2 == k && x.0 >= body).collect();
        if c.is_empty() {
            None
        } else {
            let x = c[r.below(c.len() as u64) as usize];
            Some((x.0, x.1))
        }
    };
    let replace = |s: usize, e: usize, with: &str| format!("{}{}{}", &t[..s], with, &t[e..]);
    match r.below(26) {
        0..=2 => pick_tok(r, Tk::Num).map(|(s, e)| replace(s, e, *r.pick(NASTY_VALUES))),
        3..=8 => pick_tok(r, Tk::Num).map(|(s, e)| replace(s, e, *r.pick(NASTY_NUMS))),
        9 | 10 => pick_tok(r, Tk::Str).map(|(s, e)| replace(s, e, *r.pick(&["5", "0x10", "1,2", "0@x", "-3", ""]))),
        11 | 12 => {
            // unknown data type names / other identifiers
            let c: Vec<_> = toks
                .iter()
                .filter(|x| x.2 == Tk::Ident && x.0 >= body)
                .filter(|x| {
                    let l = t[x.0..x.1].to_ascii_lowercase();
                    l.starts_with("unsigned") || l.starts_with("signed") || l.starts_with("bit")
                })
                .collect();
            if c.is_empty() || r.chance(1, 4) {
                pick_tok(r, Tk::Ident).map(|(s, e)| {
                    replace(
                        s,
                        e,
                        *r.pick(&[
                            "Ext_User_Prm_Data_Ref", "Ext_User_Prm_Data_Const", "Unit_Diag_Bit", "User_Prm_Data", "Vendor_Name",
                            "GSD_Revision", "Info_Text", "Ext_Module_Prm_Data_Len", "Max_Module", "Modular_Station", "EndModule",
                            "Module", "Text", "Slot", "Zzz",
                        ]),
                    )
                })
            } else {
                let x = c[r.below(c.len() as u64) as usize];
                Some(replace(x.0, x.1, *r.pick(UNKNOWN_TYPES)))
            }
        }
        13 | 14 => {
            // drop a "(n)" group
            let mut c = vec![];
            for w in toks.windows(3) {
                if &t[w[0].0..w[0].1] == "(" && w[1].2 == Tk::Num && &t[w[2].0..w[2].1] == ")" && w[0].0 >= body {
                    c.push((w[0].0, w[2].1));
                }
            }
            if c.is_empty() {
                None
            } else {
                let (s, e) = c[r.below(c.len() as u64) as usize];
                Some(replace(s, e, ""))
            }
        }
        15 => pick_tok(r, Tk::Punct).map(|(s, e)| replace(s, e, "")),
        16..=18 => {
            // dangling references: change the number after a *_Ref key or a module reference / slot number
            let mut c = vec![];
            for (i, x) in toks.iter().enumerate() {
                if x.2 == Tk::Ident && t[x.0..x.1].to_ascii_lowercase().ends_with("_ref") {
                    if let Some(n) = toks[i + 1..].iter().take(6).filter(|y| y.2 == Tk::Num).last() {
                        c.push((n.0, n.1));
                    }
                }
                if x.2 == Tk::Num && i > 0 && toks[i - 1].2 == Tk::Nl && toks.get(i + 1).map(|y| y.2) == Some(Tk::Nl) {
                    c.push((x.0, x.1));
                }
            }
            if c.is_empty() {
                None
            } else {
                let (s, e) = c[r.below(c.len() as u64) as usize];
                Some(replace(s, e, &format!("{}", *r.pick(&[0u64, 1, 2, 3, 5, 99, 1337, 65535, 65536, 4294967295, 4294967296]))))
            }
        }
        19 | 20 => {
            // delete / duplicate / swap lines
            let ls = line_starts(t);
            let c: Vec<usize> = (0..ls.len()).filter(|i| ls[*i] >= body).collect();
            if c.len() < 2 {
                None
            } else {
                let i = c[r.below(c.len() as u64 - 1) as usize];
                let (s, e) = (ls[i], ls[i + 1]);
                let e2 = if i + 2 < ls.len() { ls[i + 2] } else { t.len() };
                Some(match r.below(3) {
                    0 => replace(s, e, ""),
                    1 => format!("{}{}{}", &t[..e], &t[s..e], &t[e..]),
                    _ => format!("{}{}{}{}", &t[..s], &t[e..e2], &t[s..e], &t[e2..]),
                })
            }
        }
        21 => {
            let i = floor_boundary(t, r.below(t.len() as u64 + 1) as usize);
            Some(t[..i].to_string())
        }
        22 => {
            // empty a block: remove the lines between a block keyword line and the next End line
            let ls = line_starts(t);
            let mut c = vec![];
            for i in 0..ls.len() {
                let e = if i + 1 < ls.len() { ls[i + 1] } else { t.len() };
                let l = t[ls[i]..e].trim_start().to_ascii_lowercase();
                if ls[i] >= body
                    && (l.starts_with("prmtext") || l.starts_with("module") || l.starts_with("slotdefinition") || l.starts_with("extuserprmdata") || l.starts_with("unit_diag_area"))
                {
                    for j in i + 1..ls.len() {
                        let e2 = if j + 1 < ls.len() { ls[j + 1] } else { t.len() };
                        let l2 = t[ls[j]..e2].trim_start().to_ascii_lowercase();
                        if l2.starts_with("end") || l2.starts_with("unit_diag_area_end") {
                            c.push((e, ls[j]));
                            break;
                        }
                    }
                }
            }
            if c.is_empty() {
                None
            } else {
                let (s, e) = c[r.below(c.len() as u64) as usize];
                if s <= e {
                    Some(replace(s, e, ""))
                } else {
                    None
                }
            }
        }
        23 => {
            // remove an End keyword line
            let ls = line_starts(t);
            let c: Vec<usize> = (0..ls.len())
                .filter(|i| {
                    let e = if i + 1 < ls.len() { ls[i + 1] } else { t.len() };
                    ls[*i] >= body && t[ls[*i]..e].trim_start().to_ascii_lowercase().starts_with("end")
                })
                .collect();
            if c.is_empty() {
                None
            } else {
                let i = c[r.below(c.len() as u64) as usize];
                let e = if i + 1 < ls.len() { ls[i + 1] } else { t.len() };
                Some(replace(ls[i], e, ""))
            }
        }
        _ => {
            // insert a directed snippet at a line start after the marker
            let ls = line_starts(t);
            let c: Vec<usize> = ls.iter().copied().filter(|x| *x >= body).collect();
            let at = if c.is_empty() { t.len() } else { c[r.below(c.len() as u64) as usize] };
            let sn = *r.pick(SNIPPETS);
            let nl = if t.contains("\r\n") && r.chance(1, 2) { "\r\n" } else { "\n" };
            let mut head = t[..at].to_string();
            if at == t.len() && !head.ends_with('\n') {
                head.push_str(nl);
            }
            Some(format!("{}{}{}{}", head, sn.replace('\n', nl), nl, &t[at..]))
        }
    }
    .unwrap_or_else(|| format!("{}\n{}\n", t, *r.pick(SNIPPETS)))
}

const SOUP: &[&str] = &[
    "PrmText", "EndPrmText", "Text", "ExtUserPrmData", "EndExtUserPrmData", "Bit", "BitArea", "Unsigned8", "Signed16",
    "Prm_Text_Ref", "Changeable", "Visible", "Module", "EndModule", "Data_Area_Beg", "Data_Area_End", "SlotDefinition",
    "EndSlotDefinition", "Slot", "UnitDiagType", "EndUnitDiagType", "Unit_Diag_Area", "Unit_Diag_Area_End", "Value",
    "Ext_User_Prm_Data_Ref", "Ext_User_Prm_Data_Const", "Ext_Module_Prm_Data_Len", "Info_Text", "User_Prm_Data",
    "User_Prm_Data_Len", "Max_User_Prm_Data_Len", "Unit_Diag_Bit", "Unit_Diag_Bit_Help", "Unit_Diag_Not_Bit", "Vendor_Name",
    "GSD_Revision", "Max_Module", "Modular_Station", "9.6_supp", "MaxTsdr_9.6", "x", "=", "=", "=", "(", ")", ",", "-", "\"a\"",
    "\"\"", "0", "1", "2", "3", "255", "256", "0x1F", "-4", "1.5", "70000", "\n", "\n", "\n", "\n", "\r\n", " ", "\t", "\\\n",
    ";c\n", "@", "#Profibus_DP\n", "\"",
];

fn gen_soup(r: &mut Rng) -> String {
    let mut s = String::new();
    if r.chance(9, 10) {
        s.push_str("#Profibus_DP\n");
    }
    let n = r.range(1, 40);
    for _ in 0..n {
        s.push_str(*r.pick(SOUP));
        if r.chance(1, 3) {
            s.push(' ');
        }
    }
    s
}

/// statement-level soup: whole lines that are individually plausible
fn gen_line_soup(r: &mut Rng) -> String {
    let mut s = String::from("#Profibus_DP\n");
    let n = r.range(1, 8);
    for _ in 0..n {
        if r.chance(1, 2) {
            s.push_str(*r.pick(SNIPPETS));
        } else {
            let key = *r.pick(SOUP);
            let idx = if r.chance(1, 3) { format!("({})", *r.pick(NASTY_NUMS)) } else { String::new() };
            let val = if r.chance(1, 2) { *r.pick(NASTY_NUMS) } else { *r.pick(NASTY_VALUES) };
            write!(s, "{}{} = {}", key, idx, val).unwrap();
        }
        s.push('\n');
    }
    s
}

pub fn gen(seed: u64, thorough: bool, out: &mut dyn FnMut(String)) {
    let mut r = Rng::new(seed ^ 0x6_5d);
    let k = if thorough { 12 } else { 1 };
    let mock = String::from_utf8_lossy(MOCK).into_owned();
    out(format!("WIT {}", hex(mock.as_bytes())));
    let mut pool: Vec<String> = vec![mock.clone()];
    // (a) rendered descriptions
    for i in 0..(1500 * k) {
        let settings_only = i % 5 == 0;
        let g = gen_desc(&mut r, settings_only);
        let st = gen_style(&mut r);
        let text = render(&mut r, &g, &st);
        out(format!("{} {} {}", if settings_only { "SET" } else { "REN" }, hex(text.as_bytes()), dump_desc(&g.d)));
        if pool.len() < 400 {
            pool.push(text);
        } else if r.chance(1, 4) {
            let j = r.below(pool.len() as u64) as usize;
            pool[j] = text;
        }
    }
    // (b) grammar-aware mutations
    for _ in 0..(3000 * k) {
        let base = if r.chance(1, 6) { mock.clone() } else { r.pick(&pool).clone() };
        let mut t = base;
        let n = match r.below(6) {
            0 => 2,
            1 => 3,
            _ => 1,
        };
        for _ in 0..n {
            t = mutate_once(&mut r, &t);
        }
        out(format!("MUT {}", hex(t.as_bytes())));
    }
    // (c) token soup and random bytes
    for _ in 0..(700 * k) {
        let t = if r.chance(1, 2) { gen_soup(&mut r) } else { gen_line_soup(&mut r) };
        out(format!("SOUP {}", hex(t.as_bytes())));
    }
    for _ in 0..(300 * k) {
        let n = r.range(0, 60) as usize;
        let mut bytes = if r.chance(1, 2) { b"#Profibus_DP\n".to_vec() } else { vec![] };
        if r.chance(1, 2) {
            bytes.extend(r.bytes(n));
        } else {
            for _ in 0..n {
                bytes.push(*r.pick(b"\n\r =\"()0x19aZ,;-\\@._#\xc3\xa9\xff"));
            }
        }
        out(format!("RAND {}", hex(&bytes)));
    }
}
