//! Shared helpers: PRNG, hex, panic capture.
use std::fmt::Write as _;

/// xorshift64* PRNG: every random choice derives from one state.
pub struct Rng(pub u64);
impl Rng {
    pub fn new(seed: u64) -> Self {
        let mut r = Rng(seed.wrapping_mul(0x9E3779B97F4A7C15) ^ 0xD1B54A32D192ED03);
        if r.0 == 0 {
            r.0 = 0x1234567;
        }
        for _ in 0..4 {
            r.next();
        }
        r
    }
    pub fn next(&mut self) -> u64 {
        let mut x = self.0;
        x ^= x >> 12;
        x ^= x << 25;
        x ^= x >> 27;
        self.0 = x;
        x.wrapping_mul(0x2545F4914F6CDD1D)
    }
    pub fn below(&mut self, n: u64) -> u64 {
        if n == 0 {
            0
        } else {
            (self.next() >> 11) % n
        }
    }
    pub fn range(&mut self, lo: i64, hi: i64) -> i64 {
        lo + self.below((hi - lo + 1) as u64) as i64
    }
    pub fn byte(&mut self) -> u8 {
        (self.next() >> 32) as u8
    }
    pub fn chance(&mut self, num: u64, den: u64) -> bool {
        self.below(den) < num
    }
    pub fn pick<'a, T>(&mut self, xs: &'a [T]) -> &'a T {
        &xs[self.below(xs.len() as u64) as usize]
    }
    pub fn bytes(&mut self, n: usize) -> Vec<u8> {
        (0..n).map(|_| self.byte()).collect()
    }
}

pub fn hex(b: &[u8]) -> String {
    if b.is_empty() {
        return "-".to_string();
    }
    let mut s = String::with_capacity(b.len() * 2);
    for x in b {
        write!(s, "{:02x}", x).unwrap();
    }
    s
}

pub fn unhex(s: &str) -> Vec<u8> {
    if s == "-" {
        return vec![];
    }
    (0..s.len() / 2)
        .map(|i| u8::from_str_radix(&s[2 * i..2 * i + 2], 16).expect("hex"))
        .collect()
}

pub fn opt_str(o: Option<u8>) -> String {
    match o {
        Some(v) => v.to_string(),
        None => "-".to_string(),
    }
}

pub fn parse_opt(s: &str) -> Option<u8> {
    if s == "-" {
        None
    } else {
        Some(s.parse().expect("opt u8"))
    }
}

thread_local! {
    pub static LAST_PANIC: std::cell::RefCell<Option<String>> = std::cell::RefCell::new(None);
}

pub fn install_panic_hook() {
    std::panic::set_hook(Box::new(|info| {
        let loc = info
            .location()
            .map(|l| {
                let f = l.file();
                let f = f.rsplit("/repo/").next().unwrap_or(f);
                format!("{}:{}", f, l.line())
            })
            .unwrap_or_else(|| "?".into());
        LAST_PANIC.with(|p| *p.borrow_mut() = Some(loc));
    }));
}

/// Run `f`, returning Err(location) when it panics.
pub fn guarded<R>(f: impl FnOnce() -> R) -> Result<R, String> {
    LAST_PANIC.with(|p| *p.borrow_mut() = None);
    match std::panic::catch_unwind(std::panic::AssertUnwindSafe(f)) {
        Ok(r) => Ok(r),
        Err(_) => Err(LAST_PANIC.with(|p| p.borrow_mut().take()).unwrap_or_else(|| "?".into())),
    }
}

/// A logger that formats every record (so that log arguments are evaluated) and discards it.
pub struct FormatLogger;
impl log::Log for FormatLogger {
    fn enabled(&self, _: &log::Metadata) -> bool {
        true
    }
    fn log(&self, record: &log::Record) {
        let s = format!("{}", record.args());
        std::hint::black_box(s);
    }
    fn flush(&self) {}
}
pub static LOGGER: FormatLogger = FormatLogger;
pub fn install_logger() {
    let _ = log::set_logger(&LOGGER);
    log::set_max_level(log::LevelFilter::Trace);
}
