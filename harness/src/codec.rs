//! Codec domain (C09, C10): function codes, telegram encode / decode.
//!
//! Case lines (inputs):
//!   FC <byte>
//!   ENC <da> <sa> <dsap|-> <ssap|-> <fc> <pduhex|-> <resthex|-> <bufsize>
//!   DEC <hex|->
//!   MUT <framehex> <pos> <newbyte>
//! Result lines: `<input> => <output>`.
use crate::util::*;
use profirust::fdl::*;

pub fn fcb_index(f: FrameCountBit) -> u8 {
    match f {
        FrameCountBit::First => 0,
        FrameCountBit::High => 1,
        FrameCountBit::Low => 2,
        FrameCountBit::Inactive => 3,
    }
}
pub fn fcb_from_index(i: u8) -> FrameCountBit {
    match i {
        0 => FrameCountBit::First,
        1 => FrameCountBit::High,
        2 => FrameCountBit::Low,
        _ => FrameCountBit::Inactive,
    }
}

pub fn fc_str(fc: FunctionCode) -> String {
    match fc {
        FunctionCode::Request { fcb, req } => format!("Q:{}:{}", fcb_index(fcb), req as u8),
        FunctionCode::Response { state, status } => format!("P:{}:{}", state as u8, status as u8),
    }
}

pub fn parse_fc(s: &str) -> FunctionCode {
    let p: Vec<&str> = s.split(':').collect();
    let a: u8 = p[1].parse().unwrap();
    let b: u8 = p[2].parse().unwrap();
    match p[0] {
        "Q" => FunctionCode::Request {
            fcb: fcb_from_index(a),
            req: RequestType::from_u8(b).expect("req disc"),
        },
        _ => FunctionCode::Response {
            state: ResponseState::from_u8(a).expect("state disc"),
            status: ResponseStatus::from_u8(b).expect("status disc"),
        },
    }
}

pub fn telegram_str(t: &Telegram) -> String {
    match t {
        Telegram::Data(d) => format!(
            "D {} {} {} {} {} {}",
            d.h.da,
            d.h.sa,
            opt_str(d.h.dsap),
            opt_str(d.h.ssap),
            fc_str(d.h.fc),
            hex(d.pdu)
        ),
        Telegram::Token(t) => format!("T {} {}", t.da, t.sa),
        Telegram::ShortConfirmation(_) => "S".to_string(),
    }
}

pub fn decode_str(buf: &[u8]) -> String {
    match guarded(|| match Telegram::deserialize(buf) {
        None => "N".to_string(),
        Some(Err(())) => "R".to_string(),
        Some(Ok((t, n))) => format!("A {} {} L{}", n, telegram_str(&t), t.telegram_len()),
    }) {
        Ok(s) => s,
        Err(loc) => format!("PANIC {}", loc),
    }
}

pub const REQS: [u8; 12] = [0x80, 0, 3, 4, 5, 6, 7, 9, 12, 13, 14, 15];
pub const STATUSES: [u8; 9] = [0, 1, 2, 3, 8, 9, 10, 12, 13];

pub fn all_fcs() -> Vec<FunctionCode> {
    let mut v = vec![];
    for f in 0..4 {
        for b in 0..=255u8 {
            if let Some(req) = RequestType::from_u8(b) {
                v.push(FunctionCode::Request { fcb: fcb_from_index(f), req });
            }
        }
    }
    for s in 0..=255u8 {
        if let Some(state) = ResponseState::from_u8(s) {
            for t in 0..=255u8 {
                if let Some(status) = ResponseStatus::from_u8(t) {
                    v.push(FunctionCode::Response { state, status });
                }
            }
        }
    }
    v
}

pub fn run_case(line: &str) -> String {
    let p: Vec<&str> = line.split_whitespace().collect();
    match p[0] {
        "FC" => {
            let b: u8 = p[1].parse().unwrap();
            match guarded(|| match FunctionCode::from_byte(b) {
                Ok(fc) => format!("ok {} {}", fc_str(fc), fc.to_byte()),
                Err(_) => "err".to_string(),
            }) {
                Ok(s) => s,
                Err(loc) => format!("PANIC {}", loc),
            }
        }
        "ENC" => {
            let h = DataTelegramHeader {
                da: p[1].parse().unwrap(),
                sa: p[2].parse().unwrap(),
                dsap: parse_opt(p[3]),
                ssap: parse_opt(p[4]),
                fc: parse_fc(p[5]),
            };
            let pdu = unhex(p[6]);
            let rest = unhex(p[7]);
            let bufsize: usize = p[8].parse().unwrap();
            let mut buf = vec![0xAAu8; bufsize];
            let tl = h.telegram_len(pdu.len());
            let r = guarded(|| {
                let tx = TelegramTx::new(&mut buf);
                let resp = tx.send_data_telegram(h.clone(), pdu.len(), |b| b.copy_from_slice(&pdu));
                (resp.bytes_sent(), resp.expects_reply())
            });
            match r {
                Ok((n, exp)) => {
                    let n2 = n.min(buf.len());
                    let mut wire = buf[..n2].to_vec();
                    let out = format!("OK {} {} {} {}", hex(&wire), n, opt_str(exp), tl);
                    wire.extend_from_slice(&rest);
                    format!("{} | {}", out, decode_str(&wire))
                }
                Err(loc) => format!("PANIC {}", loc),
            }
        }
        "ENCZ" => {
            // like ENC, but the write_pdu closure writes only the first k bytes of a PDU of length n:
            // the rest must be zero whatever the transmit buffer held before (serialize zero-fills)
            let h = DataTelegramHeader {
                da: p[1].parse().unwrap(),
                sa: p[2].parse().unwrap(),
                dsap: parse_opt(p[3]),
                ssap: parse_opt(p[4]),
                fc: parse_fc(p[5]),
            };
            let n: usize = p[6].parse().unwrap();
            let prefix = unhex(p[7]);
            let mut buf = vec![0xAAu8; 256];
            let tl = h.telegram_len(n);
            let r = guarded(|| {
                let tx = TelegramTx::new(&mut buf);
                let resp = tx.send_data_telegram(h.clone(), n, |b| b[..prefix.len()].copy_from_slice(&prefix));
                (resp.bytes_sent(), resp.expects_reply())
            });
            match r {
                Ok((sent, exp)) => {
                    let wire = buf[..sent.min(buf.len())].to_vec();
                    let out = format!("OK {} {} {} {}", hex(&wire), sent, opt_str(exp), tl);
                    format!("{} | {}", out, decode_str(&wire))
                }
                Err(loc) => format!("PANIC {}", loc),
            }
        }
        "TOK" => {
            let da: u8 = p[1].parse().unwrap();
            let sa: u8 = p[2].parse().unwrap();
            let rest = unhex(p[3]);
            let mut buf = vec![0xAAu8; 256];
            let r = guarded(|| {
                let tx = TelegramTx::new(&mut buf);
                let resp = tx.send_token_telegram(da, sa);
                (resp.bytes_sent(), resp.expects_reply())
            });
            match r {
                Ok((n, exp)) => {
                    let mut wire = buf[..n.min(256)].to_vec();
                    let out = format!("OK {} {} {} {}", hex(&wire), n, opt_str(exp), TokenTelegram::new(da, sa).telegram_len());
                    wire.extend_from_slice(&rest);
                    format!("{} | {}", out, decode_str(&wire))
                }
                Err(loc) => format!("PANIC {}", loc),
            }
        }
        "SC" => {
            let rest = unhex(p[1]);
            let mut buf = vec![0xAAu8; 256];
            let r = guarded(|| {
                let tx = TelegramTx::new(&mut buf);
                let resp = tx.send_short_confirmation();
                (resp.bytes_sent(), resp.expects_reply())
            });
            match r {
                Ok((n, exp)) => {
                    let mut wire = buf[..n.min(256)].to_vec();
                    let out = format!("OK {} {} {} {}", hex(&wire), n, opt_str(exp), ShortConfirmation.telegram_len());
                    wire.extend_from_slice(&rest);
                    format!("{} | {}", out, decode_str(&wire))
                }
                Err(loc) => format!("PANIC {}", loc),
            }
        }
        "DEC" => decode_str(&unhex(p[1])),
        "MUT" => {
            let mut f = unhex(p[1]);
            let pos: usize = p[2].parse().unwrap();
            let nb: u8 = p[3].parse().unwrap();
            f[pos] = nb;
            decode_str(&f)
        }
        other => format!("BADCASE {}", other),
    }
}

fn random_header(rng: &mut Rng, fcs: &[FunctionCode], saps: u8) -> DataTelegramHeader {
    let edge = [0u8, 1, 63, 125, 126, 127];
    let da = if rng.chance(1, 2) { *rng.pick(&edge) } else { rng.below(128) as u8 };
    let sa = if rng.chance(1, 2) { *rng.pick(&edge) } else { rng.below(128) as u8 };
    let sapv = |rng: &mut Rng| {
        if rng.chance(1, 3) {
            *rng.pick(&[0u8, 50, 51, 54, 55, 56, 57, 58, 59, 60, 61, 62, 255])
        } else {
            rng.byte()
        }
    };
    DataTelegramHeader {
        da,
        sa,
        dsap: if saps & 1 != 0 { Some(sapv(rng)) } else { None },
        ssap: if saps & 2 != 0 { Some(sapv(rng)) } else { None },
        fc: *rng.pick(fcs),
    }
}

fn enc_line(h: &DataTelegramHeader, pdu: &[u8], rest: &[u8], bufsize: usize) -> String {
    format!(
        "ENC {} {} {} {} {} {} {} {}",
        h.da,
        h.sa,
        opt_str(h.dsap),
        opt_str(h.ssap),
        fc_str(h.fc),
        hex(pdu),
        hex(rest),
        bufsize
    )
}

/// Serialise with the real code (used only to obtain valid frames for mutation).
fn real_frame(h: &DataTelegramHeader, pdu: &[u8]) -> Vec<u8> {
    let mut buf = vec![0u8; 256];
    let n = h.serialize(&mut buf, pdu.len(), |b| b.copy_from_slice(pdu));
    buf.truncate(n);
    buf
}

/// Reference frame builder written independently of the crate (used to obtain frames that are
/// valid by the PROFIBUS format even if the crate's encoder is broken).
pub fn ref_frame(da: u8, sa: u8, dsap: Option<u8>, ssap: Option<u8>, fcb: u8, pdu: &[u8]) -> Vec<u8> {
    let mut body = vec![da | if dsap.is_some() { 0x80 } else { 0 }, sa | if ssap.is_some() { 0x80 } else { 0 }, fcb];
    if let Some(d) = dsap {
        body.push(d);
    }
    if let Some(s) = ssap {
        body.push(s);
    }
    body.extend_from_slice(pdu);
    let mut f = vec![];
    match body.len() {
        3 => f.push(0x10),
        11 => f.push(0xA2),
        n => {
            f.extend_from_slice(&[0x68, n as u8, n as u8, 0x68]);
        }
    }
    let cks = body.iter().fold(0u8, |a, b| a.wrapping_add(*b));
    f.extend_from_slice(&body);
    f.push(cks);
    f.push(0x16);
    f
}

pub fn gen(seed: u64, thorough: bool, out: &mut dyn FnMut(String)) {
    let mut rng = Rng::new(seed);
    let fcs = all_fcs();
    // all 256 function code bytes
    for b in 0..=255u32 {
        out(format!("FC {}", b));
    }
    // every SAP combination x every PDU length up to (and one beyond) the frame limit
    for saps in 0..4u8 {
        let nsap = (saps & 1) as usize + ((saps >> 1) & 1) as usize;
        let maxlen = 246 - nsap;
        for len in 0..=maxlen + 1 {
            let reps = if thorough { 6 } else { 1 };
            for _ in 0..reps {
                let h = random_header(&mut rng, &fcs, saps);
                let pdu = rng.bytes(len);
                let restlen = *rng.pick(&[0usize, 0, 1, 3, 7]);
                let rest = rng.bytes(restlen);
                out(enc_line(&h, &pdu, &rest, 256));
            }
        }
    }
    // every function code x structural lengths
    for fc in &fcs {
        for saps in 0..4u8 {
            for len in [0usize, 1, 6, 7, 8, 9, 32] {
                let mut h = random_header(&mut rng, &fcs, saps);
                h.fc = *fc;
                let pdu = rng.bytes(len);
                out(enc_line(&h, &pdu, &[], 256));
            }
        }
    }
    // closures that write only part of the PDU (or nothing) into a dirty transmit buffer
    for saps in 0..4u8 {
        for n in [0usize, 1, 2, 6, 8, 9, 20, 100, 244] {
            for _ in 0..(if thorough { 8 } else { 2 }) {
                let h = random_header(&mut rng, &fcs, saps);
                let k = rng.below(n as u64 + 1) as usize;
                let prefix = rng.bytes(k);
                out(format!(
                    "ENCZ {} {} {} {} {} {} {}",
                    h.da, h.sa, opt_str(h.dsap), opt_str(h.ssap), fc_str(h.fc), n, hex(&prefix)
                ));
            }
        }
    }
    // oversize PDUs and small transmit buffers (which inputs the real code rejects)
    for len in [247usize, 248, 249, 250, 252, 255, 300] {
        for saps in 0..4u8 {
            let h = random_header(&mut rng, &fcs, saps);
            let pdu = rng.bytes(len);
            out(enc_line(&h, &pdu, &[], 512));
        }
    }
    for bufsize in [0usize, 1, 5, 6, 8, 13, 14, 20] {
        for len in [0usize, 1, 8, 10] {
            let saps = rng.below(4) as u8;
            let h = random_header(&mut rng, &fcs, saps);
            let pdu = rng.bytes(len);
            out(enc_line(&h, &pdu, &[], bufsize));
        }
    }
    // token and SC
    for _ in 0..(if thorough { 2000 } else { 300 }) {
        let restlen = rng.below(4) as usize;
        out(format!("TOK {} {} {}", rng.byte(), rng.byte(), hex(&rng.bytes(restlen))));
    }
    for _ in 0..20 {
        let restlen = rng.below(4) as usize;
        out(format!("SC {}", hex(&rng.bytes(restlen))));
    }
    // all byte strings up to length 2
    out("DEC -".to_string());
    for a in 0..=255u8 {
        out(format!("DEC {}", hex(&[a])));
    }
    for a in 0..=255u8 {
        for b in 0..=255u8 {
            if thorough || [0x10, 0x68, 0xA2, 0xDC, 0xE5].contains(&a) || rng.chance(1, 16) {
                out(format!("DEC {}", hex(&[a, b])));
            }
        }
    }
    // all headers with structured bodies: every delimiter, every length byte pair near the diagonal
    for sd in [0x10u8, 0x68, 0xA2, 0xDC, 0xE5, 0x16, 0x00, 0xFF] {
        for l1 in 0..=255u8 {
            for dl in [0i32, 1, -1] {
                let l2 = (l1 as i32 + dl).rem_euclid(256) as u8;
                for sd2 in [0x68u8, 0x00, 0x10] {
                    // body of the announced length with correct checksum/ED, then broken variants
                    let n = l1 as usize;
                    let mut body = rng.bytes(n.max(3));
                    body[2] = fcs[rng.below(fcs.len() as u64) as usize].to_byte();
                    let cks = body.iter().take(n).fold(0u8, |a, b| a.wrapping_add(*b));
                    let mut f = vec![sd, l1, l2, sd2];
                    f.extend_from_slice(&body[..n.min(body.len())]);
                    f.push(cks);
                    f.push(0x16);
                    if dl == 0 && sd2 == 0x68 || rng.chance(1, 6) || thorough {
                        out(format!("DEC {}", hex(&f)));
                    }
                }
            }
        }
    }
    // single-byte substitutions of valid frames at every position
    let nframes = if thorough { 400 } else { 60 };
    for i in 0..nframes {
        let saps = rng.below(4) as u8;
        let h = random_header(&mut rng, &fcs, saps);
        let len = match i % 6 {
            0 => 0,
            1 => 8 - ((saps & 1) + (saps >> 1)) as usize,
            2 => rng.below(12) as usize,
            3 => rng.below(40) as usize,
            4 => 1,
            _ => rng.below(244) as usize,
        };
        let pdu = rng.bytes(len);
        let f = ref_frame(h.da, h.sa, h.dsap, h.ssap, h.fc.to_byte(), &pdu);
        let fh = hex(&f);
        for pos in 0..f.len() {
            if thorough && f.len() <= 40 {
                for nb in 0..=255u8 {
                    if nb != f[pos] {
                        out(format!("MUT {} {} {}", fh, pos, nb));
                    }
                }
            } else {
                for bit in 0..8 {
                    out(format!("MUT {} {} {}", fh, pos, f[pos] ^ (1 << bit)));
                }
                for _ in 0..(if thorough { 8 } else { 3 }) {
                    let nb = rng.byte();
                    if nb != f[pos] {
                        out(format!("MUT {} {} {}", fh, pos, nb));
                    }
                }
                for nb in [0x10u8, 0x68, 0xA2, 0xDC, 0xE5, 0x16] {
                    if nb != f[pos] && (pos < 4 || rng.chance(1, 8)) {
                        out(format!("MUT {} {} {}", fh, pos, nb));
                    }
                }
            }
        }
        // truncations (every proper prefix) and extensions
        for cut in 0..f.len() {
            if f.len() < 30 || rng.chance(1, 6) {
                out(format!("DEC {}", hex(&f[..cut])));
            }
        }
    }
    // SC and token substitutions
    for nb in 0..=255u8 {
        if nb != 0xE5 {
            out(format!("MUT e5 0 {}", nb));
        }
    }
    // random and mutational strings up to 262 bytes
    let nrand = if thorough { 60000 } else { 6000 };
    for _ in 0..nrand {
        let len = match rng.below(4) {
            0 => rng.below(8) as usize,
            1 => rng.below(20) as usize,
            2 => rng.below(64) as usize,
            _ => rng.below(263) as usize,
        };
        let mut s = rng.bytes(len);
        if len > 0 && rng.chance(3, 4) {
            s[0] = *rng.pick(&[0x10u8, 0x68, 0xA2, 0xDC, 0xE5]);
        }
        if len > 3 && s[0] == 0x68 && rng.chance(3, 4) {
            let l = if rng.chance(1, 2) { (len as i64 - 6).clamp(0, 255) as u8 } else { rng.byte() };
            s[1] = l;
            s[2] = if rng.chance(7, 8) { l } else { rng.byte() };
            s[3] = if rng.chance(7, 8) { 0x68 } else { rng.byte() };
        }
        if len >= 6 && rng.chance(1, 2) {
            // fix checksum / end delimiter so that deep paths are reached
            let (start, end) = if s[0] == 0x68 { (4usize, len - 2) } else { (1usize, len - 2) };
            if start <= end {
                let c = s[start..end].iter().fold(0u8, |a, b| a.wrapping_add(*b));
                s[len - 2] = c;
                s[len - 1] = 0x16;
            }
        }
        out(format!("DEC {}", hex(&s)));
    }
}
