//! Scan domain (C18): `fdl::live_list::LiveList` and `dp::scan::DpScanner` driven directly through
//! the public `FdlApplication` trait, in the call order the FDL layer guarantees (C15).
//!
//! Case lines (inputs):
//!   SCAN <ts> <L|S> <hp> <npolls> <pop0> <script>
//!     ts      own station address (0..125)
//!     L|S     live list | DP scanner
//!     hp      HighPrioOnly argument of call i: 0 = No, 1 = Yes, 2 = No/Yes alternating, 3 = Yes/No alternating,
//!             4 = Yes on every third call, 5 = irregular (hash of i)
//!     npolls  number of transmit_telegram calls
//!     pop0    initial responders: `-` or `a=replyhex,...` (the bytes station a answers with)
//!     script  `-` or comma separated; entry k takes effect at transmit_telegram call number 2k (0-based), which
//!             for an application that needs two calls per address is the call that starts probe number k.  The
//!             environment is a function of time (calls), not of what the application chose to do.
//!               k+a=hex   station a appears (or changes its answer) before call 2k
//!               k-a       station a disappears before call 2k
//!               k!T       the reply to a request sent in call 2k is lost
//!               k!hex     a request sent in call 2k is answered with these bytes whoever is asked
//!   RAW <ts> <L|S> <ops>      callbacks in arbitrary order (not respecting the contract): panic sites
//!     ops     comma separated: t | r<addr>=<hex> | o<addr>
//!
//! The environment runs here because its reaction depends on the address the application chose.
//! Output of SCAN: polls separated by `;`
//!     N <ev> <bits>                                  transmit returned None
//!     X<wirehex> <exp|-> <ev> T <ev> <bits>          request, time-out
//!     X<wirehex> <exp|-> <ev> R<hex> <ev> <bits>     request, reply delivered
//!   <ev> = event taken after the callback (`-` none; L: D:a:state, L:a; S: F:a:ident:master, Q:.., L:a)
//!   <bits> = station set after the poll as hex bit mask, `=` when unchanged since the previous poll.
//!   A panic ends the transcript with `PANIC <loc>`.
use crate::util::*;
use profirust::dp::scan::{DpScanEvent, DpScanner};
use profirust::fdl::live_list::{LiveList, StationEvent};
use profirust::fdl::*;
use profirust::time::Instant;

trait App: FdlApplication {
    fn ev(&mut self) -> String;
    fn bits(&self) -> u128;
}

impl App for LiveList {
    fn ev(&mut self) -> String {
        match self.take_last_event() {
            None => "-".into(),
            Some(StationEvent::Discovered(d)) => format!("D:{}:{}", d.address, d.state as u8),
            Some(StationEvent::Lost(a)) => format!("L:{}", a),
        }
    }
    fn bits(&self) -> u128 {
        self.iter_stations().fold(0u128, |m, a| m | (1u128 << a))
    }
}

impl App for DpScanner {
    fn ev(&mut self) -> String {
        match self.take_last_event() {
            None => "-".into(),
            Some(DpScanEvent::PeripheralFound(d)) => format!("F:{}:{}:{}", d.address, d.ident, opt_str(d.master_address)),
            Some(DpScanEvent::PeripheralRequery(d)) => format!("Q:{}:{}:{}", d.address, d.ident, opt_str(d.master_address)),
            Some(DpScanEvent::PeripheralLost(a)) => format!("L:{}", a),
        }
    }
    fn bits(&self) -> u128 {
        self.verif_iter_stations().fold(0u128, |m, a| m | (1u128 << a))
    }
}

fn hp_of(hp: u8, i: usize) -> HighPrioOnly {
    let yes = match hp {
        0 => false,
        1 => true,
        2 => i % 2 == 1,
        3 => i % 2 == 0,
        4 => i % 3 == 0,
        _ => ((i as u32).wrapping_mul(0x9E37_79B1) >> 13) & 1 == 1,
    };
    if yes {
        HighPrioOnly::Yes
    } else {
        HighPrioOnly::No
    }
}

enum Item {
    Appear(u8, Vec<u8>),
    Disappear(u8),
    Lost,
    Noise(Vec<u8>),
}

fn parse_script(s: &str) -> Vec<(usize, Item)> {
    let mut v = vec![];
    if s == "-" {
        return v;
    }
    for it in s.split(',') {
        let pos = it.find(|c| c == '+' || c == '-' || c == '!').expect("script item");
        let k: usize = it[..pos].parse().expect("probe index");
        let rest = &it[pos + 1..];
        let item = match &it[pos..pos + 1] {
            "+" => {
                let (a, h) = rest.split_once('=').expect("a=hex");
                Item::Appear(a.parse().unwrap(), unhex(h))
            }
            "-" => Item::Disappear(rest.parse().unwrap()),
            _ => {
                if rest == "T" {
                    Item::Lost
                } else {
                    Item::Noise(unhex(rest))
                }
            }
        };
        v.push((k, item));
    }
    v
}

fn bits_tok(prev: &mut Option<u128>, b: u128) -> String {
    if *prev == Some(b) {
        "=".into()
    } else {
        *prev = Some(b);
        format!("{:x}", b)
    }
}

fn run_scan<A: App>(app: &mut A, ts: u8, hp: u8, npolls: usize, pop0: &str, script: &str, out: &mut String) {
    let fdl = FdlActiveStation::new(ParametersBuilder::new(ts, profirust::Baudrate::B500000).build());
    let mut pop: Vec<Option<Vec<u8>>> = vec![None; 256];
    if pop0 != "-" {
        for e in pop0.split(',') {
            let (a, h) = e.split_once('=').expect("a=hex");
            pop[a.parse::<usize>().unwrap()] = Some(unhex(h));
        }
    }
    let script = parse_script(script);
    let mut prev_bits: Option<u128> = None;
    let mut buf = [0u8; 256];
    for i in 0..npolls {
        let now = Instant::from_micros(1000 * i as i64);
        let mut lost = false;
        let mut noise: Option<&Vec<u8>> = None;
        for (k, it) in script.iter() {
            if 2 * *k == i {
                match it {
                    Item::Appear(a, h) => pop[*a as usize] = Some(h.clone()),
                    Item::Disappear(a) => pop[*a as usize] = None,
                    Item::Lost => lost = true,
                    Item::Noise(h) => noise = Some(h),
                }
            }
        }
        if i > 0 {
            out.push(';');
        }
        let r = app.transmit_telegram(now, &fdl, TelegramTx::new(&mut buf), hp_of(hp, i));
        match r {
            None => {
                let e = app.ev();
                let b = bits_tok(&mut prev_bits, app.bits());
                out.push_str(&format!("N {} {}", e, b));
            }
            Some(resp) => {
                let wire = hex(&buf[..resp.bytes_sent()]);
                let e1 = app.ev();
                out.push_str(&format!("X{} {} {}", wire, opt_str(resp.expects_reply()), e1));
                if let Some(da) = resp.expects_reply() {
                    // the environment: the station's own address never answers (O5)
                    let answer: Option<Vec<u8>> = if lost {
                        None
                    } else if let Some(n) = noise {
                        Some(n.clone())
                    } else if da == ts {
                        None
                    } else {
                        pop[da as usize].clone()
                    };
                    let mut delivered = false;
                    if let Some(bytes) = &answer {
                        if let Some(Ok((t, _))) = Telegram::deserialize(bytes) {
                            out.push_str(&format!(" R{}", hex(bytes)));
                            app.receive_reply(now, &fdl, da, t);
                            delivered = true;
                        }
                    }
                    if !delivered {
                        out.push_str(" T");
                        app.handle_timeout(now, &fdl, da);
                    }
                    let e2 = app.ev();
                    let b = bits_tok(&mut prev_bits, app.bits());
                    out.push_str(&format!(" {} {}", e2, b));
                } else {
                    let b = bits_tok(&mut prev_bits, app.bits());
                    out.push_str(&format!(" - - {}", b));
                }
            }
        }
    }
}

fn run_raw<A: App>(app: &mut A, ts: u8, ops: &str, out: &mut String) {
    let fdl = FdlActiveStation::new(ParametersBuilder::new(ts, profirust::Baudrate::B500000).build());
    let mut buf = [0u8; 256];
    let now = Instant::from_micros(0);
    let mut first = true;
    for op in ops.split(',') {
        if !first {
            out.push(';');
        }
        first = false;
        if op == "t" {
            match app.transmit_telegram(now, &fdl, TelegramTx::new(&mut buf), HighPrioOnly::No) {
                None => out.push('N'),
                Some(resp) => out.push_str(&format!("X{} {}", hex(&buf[..resp.bytes_sent()]), opt_str(resp.expects_reply()))),
            }
        } else if let Some(rest) = op.strip_prefix('r') {
            let (a, h) = rest.split_once('=').expect("r<addr>=hex");
            let bytes = unhex(h);
            match Telegram::deserialize(&bytes) {
                Some(Ok((t, _))) => {
                    app.receive_reply(now, &fdl, a.parse().unwrap(), t);
                    out.push('r');
                }
                _ => out.push('U'),
            }
        } else if let Some(a) = op.strip_prefix('o') {
            app.handle_timeout(now, &fdl, a.parse().unwrap());
            out.push('o');
        }
        let e = app.ev();
        out.push_str(&format!(" {} {:x}", e, app.bits()));
    }
}

pub fn run_case(line: &str) -> String {
    let p: Vec<&str> = line.split_whitespace().collect();
    let mut out = String::new();
    let r = match p[0] {
        "SCAN" => {
            let ts: u8 = p[1].parse().unwrap();
            let hp: u8 = p[3].parse().unwrap();
            let n: usize = p[4].parse().unwrap();
            let o = &mut out;
            guarded(move || {
                if p[2] == "L" {
                    run_scan(&mut LiveList::new(), ts, hp, n, p[5], p[6], o)
                } else {
                    run_scan(&mut DpScanner::new(), ts, hp, n, p[5], p[6], o)
                }
            })
        }
        "RAW" => {
            let ts: u8 = p[1].parse().unwrap();
            let o = &mut out;
            guarded(move || {
                if p[2] == "L" {
                    run_raw(&mut LiveList::new(), ts, p[3], o)
                } else {
                    run_raw(&mut DpScanner::new(), ts, p[3], o)
                }
            })
        }
        _ => return "BADCASE".into(),
    };
    if let Err(loc) = r {
        out.push_str(&format!(" PANIC {}", loc));
    }
    out
}

// ------------------------------------------------------------------------------------ generation

fn frame(h: DataTelegramHeader, pdu: &[u8]) -> Vec<u8> {
    let mut buf = [0u8; 256];
    let r = TelegramTx::new(&mut buf).send_data_telegram(h, pdu.len(), |b| b.copy_from_slice(pdu));
    buf[..r.bytes_sent()].to_vec()
}

fn resp_fc(rng: &mut Rng) -> FunctionCode {
    let state = ResponseState::from_u8(rng.below(4) as u8).unwrap();
    let status = if rng.chance(4, 5) {
        ResponseStatus::Ok
    } else {
        ResponseStatus::from_u8(*rng.pick(&crate::codec::STATUSES)).unwrap()
    };
    FunctionCode::Response { state, status }
}

/// A valid answer of station `a` to an FDL status request of `ts`.
fn status_reply(rng: &mut Rng, ts: u8, a: u8) -> Vec<u8> {
    frame(DataTelegramHeader { da: ts, sa: a, dsap: None, ssap: None, fc: resp_fc(rng) }, &[])
}

/// A valid Slave_Diag answer of station `a`.
fn diag_reply(rng: &mut Rng, ts: u8, a: u8) -> Vec<u8> {
    let mut pdu = vec![rng.byte(), rng.byte() | if rng.chance(7, 8) { 0x04 } else { 0 }, rng.byte()];
    pdu.push(if rng.chance(1, 2) { 255 } else { rng.byte() });
    pdu.push(rng.byte());
    pdu.push(rng.byte());
    if rng.chance(1, 3) {
        let n = rng.below(12) as usize;
        pdu.extend(rng.bytes(n));
    }
    frame(
        DataTelegramHeader {
            da: ts,
            sa: a,
            dsap: Some(62),
            ssap: Some(60),
            fc: FunctionCode::Response { state: ResponseState::Slave, status: ResponseStatus::DataLow },
        },
        &pdu,
    )
}

fn valid_reply(rng: &mut Rng, scanner: bool, ts: u8, a: u8) -> Vec<u8> {
    if scanner {
        diag_reply(rng, ts, a)
    } else {
        status_reply(rng, ts, a)
    }
}

/// Something else than the expected answer (still a decodable telegram, mostly).
fn other_reply(rng: &mut Rng, scanner: bool, ts: u8, a: u8) -> Vec<u8> {
    let req_fc = FunctionCode::Request {
        fcb: crate::codec::fcb_from_index(rng.below(4) as u8),
        req: RequestType::from_u8(*rng.pick(&crate::codec::REQS)).unwrap(),
    };
    match rng.below(if scanner { 10 } else { 7 }) {
        0 => vec![0xe5],
        1 => vec![0xdc, ts, a],
        // a request instead of a response
        2 => frame(DataTelegramHeader { da: ts, sa: a, dsap: None, ssap: None, fc: req_fc }, &[]),
        // wrong source address
        3 => {
            let other = rng.below(126) as u8;
            valid_reply(rng, scanner, ts, other)
        }
        // the other application's kind of answer
        4 => valid_reply(rng, !scanner, ts, a),
        // does not decode
        5 => {
            let mut f = valid_reply(rng, scanner, ts, a);
            let i = rng.below(f.len() as u64) as usize;
            f[i] ^= 1 << rng.below(8);
            f
        }
        6 => {
            let n = rng.below(6) as usize;
            let pdu = rng.bytes(n);
            frame(DataTelegramHeader { da: ts, sa: a, dsap: Some(rng.byte()), ssap: None, fc: resp_fc(rng) }, &pdu)
        }
        // scanner only: SAP / length variations of a diagnostics answer
        7 => {
            let n = rng.below(6) as usize;
            let pdu = rng.bytes(n);
            frame(DataTelegramHeader { da: ts, sa: a, dsap: Some(62), ssap: Some(60), fc: resp_fc(rng) }, &pdu)
        }
        8 => {
            let n = 6 + rng.below(4) as usize;
            let pdu = rng.bytes(n);
            let (d, s) = match rng.below(4) {
                0 => (Some(60), Some(62)),
                1 => (Some(62), None),
                2 => (None, Some(60)),
                _ => (Some(62), Some(rng.byte())),
            };
            frame(DataTelegramHeader { da: ts, sa: a, dsap: d, ssap: s, fc: resp_fc(rng) }, &pdu)
        }
        // a request carrying a well-formed diagnostics body (the scanner does not look at the FC)
        _ => {
            let n = 6 + rng.below(4) as usize;
            let pdu = rng.bytes(n);
            frame(DataTelegramHeader { da: ts, sa: a, dsap: Some(62), ssap: Some(60), fc: req_fc }, &pdu)
        }
    }
}

fn pick_addr(rng: &mut Rng, ts: u8) -> u8 {
    match rng.below(10) {
        0 => 0,
        1 => 125,
        2 => ts,
        3 => ts.wrapping_add(1) % 126,
        4 => (ts + 125) % 126,
        5 => 124,
        _ => rng.below(126) as u8,
    }
}

/// `settled`: Some(hp) = a clean long history (valid answers only, nothing lost) whose population stops changing at
/// least two sweeps before the end, with the given HighPrioOnly mode: food for the ground-truth oracle.
fn gen_scan(rng: &mut Rng, long: bool, settled: Option<u64>) -> String {
    let scanner = rng.chance(1, 2);
    let ts = match rng.below(8) {
        0 => 0,
        1 => 125,
        _ => rng.below(126) as u8,
    };
    // settled cases: every second one has, from the start or arriving by script, stations whose answer is not a
    // valid one (`others`), with nothing lost: the sweep must go on behind them (ground truth, seeded R5-C18-2)
    let others = matches!(settled, Some(h) if h >= 6);
    let settled = settled.map(|h| h % 6);
    let hp = match settled {
        Some(h) => h,
        None => rng.below(6),
    };
    // how clean the environment is: 0 = responders only answer validly and nothing is lost after
    // settling, 1 = additionally lost replies, 2 = additionally other answers
    let dirt = if settled.is_some() { 0 } else { rng.below(3) };
    let sweeps = if long { 3 + rng.below(3) as usize } else { 0 };
    let npolls = if long { sweeps * 252 + rng.below(9) as usize } else { 1 + rng.below(300) as usize };
    let nprobes = (npolls + 1) / 2;
    // population
    let mut members: Vec<u8> = vec![];
    match if settled.is_some() { 1 + rng.below(5) } else { rng.below(6) } {
        0 => {}
        1 | 2 => {
            for _ in 0..1 + rng.below(8) {
                members.push(pick_addr(rng, ts));
            }
        }
        3 => {
            for a in 0..126u8 {
                if rng.chance(1, 2) {
                    members.push(a);
                }
            }
        }
        4 => members.extend(0..126u8),
        _ => members.extend([0u8, 1, 124, 125, ts]),
    }
    members.sort();
    members.dedup();
    let mut pop0 = vec![];
    for &a in &members {
        let bytes = if (dirt == 2 && rng.chance(1, 12)) || (others && rng.chance(1, 5)) { other_reply(rng, scanner, ts, a) } else { valid_reply(rng, scanner, ts, a) };
        pop0.push(format!("{}={}", a, hex(&bytes)));
    }
    // disturbances: settle early in 2 of 3 long cases so that two stable sweeps follow
    let limit = if long && (settled.is_some() || rng.chance(2, 3)) { (sweeps - 2) * 126 - rng.below(20) as usize } else { nprobes };
    let mut script: Vec<(usize, String)> = vec![];
    if limit > 0 {
        let nchanges = match rng.below(4) {
            0 => 0,
            1 => 1 + rng.below(3),
            2 => 3 + rng.below(10),
            _ => 10 + rng.below(40),
        };
        for _ in 0..nchanges {
            let k = rng.below(limit as u64) as usize;
            let a = pick_addr(rng, ts);
            match rng.below(4) {
                0 | 1 => {
                    let bytes = if (dirt == 2 && rng.chance(1, 8)) || (others && rng.chance(1, 4)) { other_reply(rng, scanner, ts, a) } else { valid_reply(rng, scanner, ts, a) };
                    script.push((k, format!("{}+{}={}", k, a, hex(&bytes))));
                }
                _ => {
                    let a = if !members.is_empty() && rng.chance(2, 3) { *rng.pick(&members) } else { a };
                    script.push((k, format!("{}-{}", k, a)));
                }
            }
        }
        if dirt >= 1 {
            for _ in 0..rng.below(12) {
                let k = rng.below(limit as u64) as usize;
                script.push((k, format!("{}!T", k)));
            }
        }
        if dirt >= 2 {
            for _ in 0..rng.below(12) {
                let k = rng.below(limit as u64) as usize;
                let a = (k % 126) as u8;
                let a = if rng.chance(3, 4) { a } else { pick_addr(rng, ts) };
                script.push((k, format!("{}!{}", k, hex(&other_reply(rng, scanner, ts, a)))));
            }
        }
    }
    script.sort_by_key(|x| x.0);
    let script: Vec<String> = script.into_iter().map(|x| x.1).collect();
    format!(
        "SCAN {} {} {} {} {} {}",
        ts,
        if scanner { "S" } else { "L" },
        hp,
        npolls,
        if pop0.is_empty() { "-".to_string() } else { pop0.join(",") },
        if script.is_empty() { "-".to_string() } else { script.join(",") }
    )
}

fn gen_raw(rng: &mut Rng) -> String {
    let scanner = rng.chance(1, 2);
    let ts = rng.below(126) as u8;
    let n = 1 + rng.below(30);
    let mut ops = vec![];
    for _ in 0..n {
        let addr = match rng.below(40) {
            0 => 128,
            1 => 255,
            2 => 128 + rng.below(128) as u8,
            3 | 4 => 127,
            5 | 6 => 126,
            _ => rng.below(126) as u8,
        };
        match rng.below(3) {
            0 => ops.push("t".to_string()),
            1 => ops.push(format!("o{}", addr)),
            _ => {
                let a7 = addr & 0x7f;
                let bytes = if rng.chance(1, 2) { valid_reply(rng, scanner, ts, a7) } else { other_reply(rng, scanner, ts, a7) };
                ops.push(format!("r{}={}", addr, hex(&bytes)));
            }
        }
    }
    format!("RAW {} {} {}", ts, if scanner { "S" } else { "L" }, ops.join(","))
}

pub fn gen(seed: u64, thorough: bool, out: &mut dyn FnMut(String)) {
    let mut rng = Rng::new(seed ^ 0x5ca9);
    let (n_long, n_short, n_raw, n_settled) = if thorough { (3000, 12000, 20000, 1200) } else { (300, 1200, 2000, 120) };
    // short histories first: a failing input reported first is a small one
    for _ in 0..n_raw {
        out(gen_raw(&mut rng));
    }
    for _ in 0..n_short {
        out(gen_scan(&mut rng, false, None));
    }
    for i in 0..n_settled {
        out(gen_scan(&mut rng, true, Some(i % 12)));
    }
    for _ in 0..n_long {
        out(gen_scan(&mut rng, true, None));
    }
}
