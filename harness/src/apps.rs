//! Apps domain (C05, application side): one real `FdlActiveStation` driven poll by poll through a
//! scripted PHY with the REAL applications attached through `poll_multi`: `DpMaster` (with peripherals),
//! `LiveList`, `DpScanner`, `()`, in any mixture, against scripted responders (DP slaves / bare FDL
//! stations / noise).  The model side (ocaml/run_apps.ml) replays the transcript on
//! `Fdl.poll any_app_ops` (coq/Model/AppsGlue.v) and compares every poll output and every event taken.
//!
//! Case line:
//!   APPS <addr> <baud 0..10> <slot_bits> <hsa> <gap> <ttr_bits> <max_retry> <seed> <t0>
//!        / <app>...  / <responder>... / <npolls> <per_lo> <per_hi> <noise %> <take %> <off_every|0> <add_every|0>
//!   app:       `D<O|S><V|A><nslots>[:<addr>.<in>.<out>.<prm len|N>.<cfg len|N>]...`  DP master, Operate or left
//!              in Stop, Vec or fixed storage of nslots, peripherals added in order
//!              | `L` live list | `C` DP scanner | `U` unit application
//!   responder: `<addr>:<kind>:<in_len>`  kind s = DP slave (status / diag / prm / cfg / data exchange),
//!              r = as s but diagnostics report Prm_Req (never configured), m = answers FDL status only
//!   noise:     chance that a reply is replaced (nothing / SC / random bytes / random response / late)
//!   take:      chance per poll and application that the user takes the events afterwards
//!   off_every: every n-th poll is preceded by set_offline + set_online (0 = never)
//!   add_every: after every n-th poll (at most three times) a peripheral 20 / 21 / 22 (1 byte in, 1 out, Chk_Cfg 1 byte) is
//!              added to every DP master, whatever it is doing (0 = never)
//!
//! Result: transcript, events separated by `;`
//!   `A on` `A off`                                   connectivity calls
//!   `P <now> <busy> <rxhex> > <txhex> <consumed>`    one poll: inputs > outputs
//!   `E <i> <events>`                                 events taken from application i after the poll
//!   `G <i> <addr> <ok|PANIC>`                        DpMaster::add on application i after the poll
//!   `F <i> <summary>`                                final state of application i
//!   `PANIC <loc>`                                    the last call panicked
use crate::codec::ref_frame;
use crate::fdl::BAUDS;
use crate::util::*;
use profirust::dp::scan::{DpScanEvent, DpScanner};
use profirust::dp::*;
use profirust::fdl::live_list::{LiveList, StationEvent};
use profirust::fdl::*;
use profirust::phy::ProfibusPhy;
use profirust::time::Instant;
use std::fmt::Write as _;

// ------------------------------------------------------------------------------------------ PHY (as in fdl.rs)

struct HPhy {
    rx: Vec<u8>,
    sent: Option<Vec<u8>>,
    busy: bool,
    consumed: usize,
}

impl ProfibusPhy for HPhy {
    fn poll_transmission(&mut self, _now: Instant) -> bool {
        self.busy
    }
    fn transmit_data<F, R>(&mut self, _now: Instant, f: F) -> R
    where
        F: FnOnce(&mut [u8]) -> (usize, R),
    {
        assert!(!self.busy, "harness PHY: transmit while transmission in progress");
        let mut buf = [0xA5u8; 256];
        let (n, r) = f(&mut buf);
        if n > 0 {
            assert!(self.sent.is_none(), "harness PHY: second transmission in one poll");
            self.sent = Some(buf[..n].to_vec());
        }
        r
    }
    fn receive_data<F, R>(&mut self, _now: Instant, f: F) -> R
    where
        F: FnOnce(&[u8]) -> (usize, R),
    {
        assert!(!self.busy, "harness PHY: receive while transmission in progress");
        let (n, r) = f(&self.rx);
        assert!(n <= self.rx.len(), "harness PHY: dropped more than buffered");
        self.rx.drain(..n);
        self.consumed += n;
        r
    }
}

// ------------------------------------------------------------------------------------------ applications

enum AppBox {
    Dp(DpMaster<'static>, Vec<PeripheralHandle>),
    Ll(LiveList),
    Sc(DpScanner),
    Unit(()),
}

fn pattern(n: usize, k: usize) -> Vec<u8> {
    (0..n).map(|i| ((i * 7 + k) % 256) as u8).collect()
}

fn leak(v: Vec<u8>) -> &'static [u8] {
    &*Box::leak(v.into_boxed_slice())
}

fn parse_len(s: &str, k: usize) -> Option<&'static [u8]> {
    if s == "N" {
        None
    } else {
        Some(leak(pattern(s.parse().expect("len"), k)))
    }
}

fn make_app(tok: &str) -> AppBox {
    match tok.as_bytes()[0] {
        b'L' => AppBox::Ll(LiveList::new()),
        b'C' => AppBox::Sc(DpScanner::new()),
        b'U' => AppBox::Unit(()),
        b'D' => {
            let parts: Vec<&str> = tok.split(':').collect();
            let head = parts[0];
            let operate = head.as_bytes()[1] == b'O';
            let owned = head.as_bytes()[2] == b'V';
            let nslots: usize = head[3..].parse().expect("nslots");
            let storage: Vec<PeripheralStorage<'static>> = (0..nslots).map(|_| PeripheralStorage::default()).collect();
            let mut m = if owned { DpMaster::new(storage) } else { DpMaster::new(&mut *Box::leak(storage.into_boxed_slice())) };
            let mut handles = vec![];
            for p in &parts[1..] {
                let f: Vec<&str> = p.split('.').collect();
                let options = PeripheralOptions {
                    ident_number: 0x1234,
                    user_parameters: parse_len(f[3], 1),
                    config: parse_len(f[4], 3),
                    ..Default::default()
                };
                let per = Peripheral::new(
                    f[0].parse().expect("addr"),
                    options,
                    vec![0u8; f[1].parse().expect("in")],
                    pattern(f[2].parse().expect("out"), 5),
                );
                handles.push(m.add(per));
            }
            if operate {
                m.enter_operate();
            }
            AppBox::Dp(m, handles)
        }
        _ => panic!("bad app"),
    }
}

fn take_events(a: &mut AppBox) -> String {
    match a {
        AppBox::Dp(m, _) => {
            let e = m.take_last_events();
            match e.peripheral {
                Some((h, ev)) => format!("{},{},{},{}", e.cycle_completed as u8, h.verif_index(), h.address(), ev as u8),
                None => format!("{},-", e.cycle_completed as u8),
            }
        }
        AppBox::Ll(l) => match l.take_last_event() {
            None => "-".into(),
            Some(StationEvent::Discovered(d)) => format!("D:{}:{}", d.address, d.state as u8),
            Some(StationEvent::Lost(a)) => format!("L:{}", a),
        },
        AppBox::Sc(s) => match s.take_last_event() {
            None => "-".into(),
            Some(DpScanEvent::PeripheralFound(d)) => format!("F:{}:{}:{}", d.address, d.ident, opt_str(d.master_address)),
            Some(DpScanEvent::PeripheralRequery(d)) => format!("Q:{}:{}:{}", d.address, d.ident, opt_str(d.master_address)),
            Some(DpScanEvent::PeripheralLost(a)) => format!("L:{}", a),
        },
        AppBox::Unit(_) => "-".into(),
    }
}

fn summary(a: &mut AppBox) -> String {
    match a {
        AppBox::Dp(m, hs) => {
            let mut s = format!("dp{}", m.operating_state() as u8);
            for h in hs.iter() {
                let p = m.get_mut(*h);
                write!(s, "/{}{}:{}", p.is_live() as u8, p.is_running() as u8, hex(p.pi_i())).unwrap();
            }
            s
        }
        AppBox::Ll(l) => format!("ll{:x}", l.iter_stations().fold(0u128, |m, a| m | (1u128 << a))),
        AppBox::Sc(s) => format!("sc{:x}", s.verif_iter_stations().fold(0u128, |m, a| m | (1u128 << a))),
        AppBox::Unit(_) => "u".into(),
    }
}

// ------------------------------------------------------------------------------------------ responders

#[derive(Clone)]
struct Resp {
    addr: u8,
    kind: u8,
    in_len: usize,
    counter: usize,
}

/// FC bytes of responses: slave / master-not-ready with status Ok, data low, SAP not enabled
const FC_SLAVE_OK: u8 = 0x00;
const FC_SLAVE_DL: u8 = 0x08;
const FC_SLAVE_DH: u8 = 0x0A;
const FC_MASTER_NR: u8 = 0x10;

fn reply_of(r: &mut Resp, ts: u8, t: &Telegram) -> Option<Vec<u8>> {
    let Telegram::Data(d) = t else { return None };
    let FunctionCode::Request { req, .. } = d.h.fc else { return None };
    r.counter += 1;
    match req {
        RequestType::FdlStatus => Some(ref_frame(ts, r.addr, None, None, if r.kind == b'm' { FC_MASTER_NR } else { FC_SLAVE_OK }, &[])),
        RequestType::SrdLow | RequestType::SrdHigh => {
            if r.kind == b'm' {
                return None;
            }
            match (d.h.dsap, d.h.ssap) {
                // Slave_Diag
                (Some(60), Some(62)) => {
                    let (b0, b1) = if r.kind == b'r' { (0x00u8, 0x05u8) } else { (0x00u8, 0x04u8) };
                    let mut pdu = vec![b0, b1, 0x00, ts, 0x12, 0x34];
                    if r.counter % 5 == 0 {
                        pdu[0] |= 0x08; // ext diag
                        pdu.extend_from_slice(&[0x03, 0x11, 0x22]);
                    }
                    Some(ref_frame(ts, r.addr, Some(62), Some(60), FC_SLAVE_DL, &pdu))
                }
                // Set_Prm, Chk_Cfg
                (Some(61), Some(62)) | (Some(62), Some(62)) => Some(vec![0xE5]),
                // Data_Exchange
                (None, None) => {
                    let fc = if r.counter % 7 == 0 { FC_SLAVE_DH } else { FC_SLAVE_DL };
                    if r.in_len == 0 && r.counter % 3 != 0 {
                        Some(vec![0xE5])
                    } else {
                        Some(ref_frame(ts, r.addr, None, None, fc, &pattern(r.in_len, r.counter)))
                    }
                }
                _ => None,
            }
        }
        _ => None,
    }
}

// ------------------------------------------------------------------------------------------ runner

pub fn run_case(line: &str) -> String {
    let sections: Vec<&str> = line.split('/').map(|s| s.trim()).collect();
    assert!(sections.len() == 4, "bad APPS case");
    let h: Vec<&str> = sections[0].split_whitespace().collect();
    assert!(h[0] == "APPS" && h.len() == 10, "bad APPS header");
    let addr: u8 = h[1].parse().unwrap();
    let baud = BAUDS[h[2].parse::<usize>().unwrap()];
    let slot_bits: u16 = h[3].parse().unwrap();
    let hsa: u8 = h[4].parse().unwrap();
    let gap: u8 = h[5].parse().unwrap();
    let ttr: u32 = h[6].parse().unwrap();
    let retry: u8 = h[7].parse().unwrap();
    let seed: u64 = h[8].parse().unwrap();
    let t0: i64 = h[9].parse().unwrap();
    let mut apps: Vec<AppBox> = sections[1].split_whitespace().map(make_app).collect();
    let mut resps: Vec<Resp> = sections[2]
        .split_whitespace()
        .map(|s| {
            let f: Vec<&str> = s.split(':').collect();
            Resp { addr: f[0].parse().unwrap(), kind: f[1].as_bytes()[0], in_len: f[2].parse().unwrap(), counter: 0 }
        })
        .collect();
    let r: Vec<u64> = sections[3].split_whitespace().map(|s| s.parse().unwrap()).collect();
    let (npolls, per_lo, per_hi, noise, take, off_every, add_every) = (r[0], r[1], r[2], r[3], r[4], r[5], r[6]);
    let mut added = 0u8;

    let mut out = String::new();
    let created = guarded(|| {
        let mut p = ParametersBuilder::new(addr.min(125), baud).build();
        p.address = addr;
        p.slot_bits = slot_bits;
        p.highest_station_address = hsa;
        p.gap_wait_rotations = gap;
        p.token_rotation_bits = ttr;
        p.max_retry_limit = retry;
        FdlActiveStation::new(p)
    });
    let mut fdl = match created {
        Ok(f) => f,
        Err(loc) => return format!("PANIC {}", loc),
    };
    let rate = baud.to_rate();
    let bit = |bits: u64| (bits * 1_000_000 / rate) as i64;
    let slot_us = (slot_bits as u64 * 1_000_000 / rate).max(1);
    let mut rng = Rng::new(seed);
    let mut phy = HPhy { rx: vec![], sent: None, busy: false, consumed: 0 };
    let mut now = t0;
    let mut tx_end = i64::MIN / 2;
    let mut pending: Vec<(i64, Vec<u8>)> = vec![];

    fdl.set_online();
    out.push_str("A on;");
    for k in 0..npolls {
        if off_every > 0 && k > 0 && k % off_every == 0 {
            fdl.set_offline();
            fdl.set_online();
            out.push_str("A off;A on;");
        }
        // deliver what has arrived
        let mut rest = vec![];
        for (t, b) in pending.drain(..) {
            if t <= now {
                phy.rx.extend_from_slice(&b);
            } else {
                rest.push((t, b));
            }
        }
        pending = rest;
        phy.busy = now < tx_end;
        phy.sent = None;
        phy.consumed = 0;
        write!(out, "P {} {} {} > ", now, phy.busy as u8, hex(&phy.rx)).unwrap();
        let res = guarded(|| {
            let mut refs: Vec<&mut dyn FdlApplication> = apps
                .iter_mut()
                .map(|a| match a {
                    AppBox::Dp(m, _) => m as &mut dyn FdlApplication,
                    AppBox::Ll(l) => l as &mut dyn FdlApplication,
                    AppBox::Sc(s) => s as &mut dyn FdlApplication,
                    AppBox::Unit(u) => u as &mut dyn FdlApplication,
                })
                .collect();
            fdl.poll_multi(Instant::from_micros(now), &mut phy, &mut refs);
        });
        let sent = phy.sent.take();
        write!(out, "{} {}", sent.as_deref().map(hex).unwrap_or_else(|| "-".into()), phy.consumed).unwrap();
        if let Err(loc) = res {
            write!(out, ";PANIC {}", loc).unwrap();
            return out;
        }
        out.push(';');
        if let Some(b) = sent {
            tx_end = now + bit(11 * b.len() as u64);
            if let Some(Ok((t, _))) = Telegram::deserialize(&b) {
                let da = match &t {
                    Telegram::Data(d) => Some(d.h.da),
                    _ => None,
                };
                if let Some(da) = da {
                    if let Some(rp) = resps.iter_mut().find(|r| r.addr == da) {
                        let mut reply = reply_of(rp, addr, &t);
                        let mut at = tx_end + bit(30);
                        if rng.below(100) < noise {
                            match rng.below(6) {
                                0 => reply = None,
                                1 => reply = Some(vec![0xE5]),
                                2 => {
                                    let n = 1 + rng.below(12) as usize;
                                    reply = Some(rng.bytes(n))
                                }
                                3 => {
                                    let n = rng.below(20) as usize;
                                    let saps = rng.chance(1, 2);
                                    reply = Some(ref_frame(
                                        addr,
                                        da,
                                        if saps { Some(62) } else { None },
                                        if saps { Some(60) } else { None },
                                        *rng.pick(&[0x00u8, 0x08, 0x0A, 0x03, 0x02, 0x01, 0x4D, 0x49]),
                                        &rng.bytes(n),
                                    ))
                                }
                                4 => at = tx_end + bit(slot_bits as u64 + 60),
                                _ => reply = Some(ref_frame(addr, da.wrapping_add(1) & 0x7f, None, None, 0x08, &rng.bytes(2))),
                            }
                        }
                        if let Some(b) = reply {
                            pending.push((at, b));
                        }
                    }
                }
            }
        }
        for (i, a) in apps.iter_mut().enumerate() {
            if rng.below(100) < take {
                write!(out, "E {} {};", i, take_events(a)).unwrap();
            }
        }
        if add_every > 0 && (k + 1) % add_every == 0 && added < 3 {
            let a = 20 + added;
            added += 1;
            for (i, app) in apps.iter_mut().enumerate() {
                if let AppBox::Dp(m, hs) = app {
                    let options = PeripheralOptions { ident_number: 0x1234, user_parameters: None, config: Some(leak(pattern(1, 3))), ..Default::default() };
                    let per = Peripheral::new(a, options, vec![0u8; 1], pattern(1, 5));
                    match guarded(|| m.add(per)) {
                        Ok(h) => {
                            hs.push(h);
                            write!(out, "G {} {} ok;", i, a).unwrap();
                        }
                        Err(_) => write!(out, "G {} {} PANIC;", i, a).unwrap(),
                    }
                }
            }
        }
        let k = per_lo + rng.below(per_hi - per_lo + 1);
        now += (slot_us * k / 32).max(1) as i64;
    }
    for (i, a) in apps.iter_mut().enumerate() {
        write!(out, "F {} {};", i, summary(a)).unwrap();
    }
    out
}

// ------------------------------------------------------------------------------------------ generation

pub fn gen(seed: u64, thorough: bool, out: &mut dyn FnMut(String)) {
    let mut rng = Rng::new(seed ^ 0xA995);
    let n = if thorough { 6000 } else { 600 };
    for c in 0..n {
        let addr = *rng.pick(&[0u8, 1, 2, 7]);
        let baud = *rng.pick(&[1usize, 5, 6, 7, 10]);
        let min_slot = [100u16, 100, 100, 100, 100, 100, 200, 300, 400, 600, 1000][baud];
        let slot_bits = min_slot + rng.below(3) as u16 * 50;
        let hsa = addr + 1 + rng.below(6) as u8;
        let gap = 1 + rng.below(3);
        let ttr = *rng.pick(&[20_000u32, 60_000, 400_000]);
        let retry = 1 + rng.below(3);
        // applications
        let napps = if c % 11 == 0 { 0 } else { 1 + rng.below(3) };
        let mut apps = vec![];
        let mut periph_addrs: Vec<(u8, usize)> = vec![];
        for _ in 0..napps {
            match rng.below(6) {
                0 => apps.push("L".to_string()),
                1 => apps.push("C".to_string()),
                2 if rng.chance(1, 3) => apps.push("U".to_string()),
                _ => {
                    let np = *rng.pick(&[0usize, 1, 1, 2, 2, 3]);
                    let owned = rng.chance(1, 2);
                    let nslots = if owned { rng.below(3) as usize } else { np + rng.below(3) as usize };
                    let mut s = format!("D{}{}{}", if rng.chance(9, 10) { 'O' } else { 'S' }, if owned { 'V' } else { 'A' }, nslots);
                    for _ in 0..np {
                        let a = 8 + rng.below(8) as u8;
                        let inl = *rng.pick(&[0usize, 1, 2, 4, 32, 244]);
                        let outl = *rng.pick(&[0usize, 1, 2, 8, 100, 246]);
                        let prm = *rng.pick(&["N", "0", "3", "10", "237"]);
                        let cfg = *rng.pick(&["N", "1", "2", "244"]);
                        write!(s, ":{}.{}.{}.{}.{}", a, inl, outl, prm, cfg).unwrap();
                        periph_addrs.push((a, inl));
                    }
                    apps.push(s);
                }
            }
        }
        // responders: most peripherals exist, some with another input length; plus a few bare stations
        let mut resps = vec![];
        for (a, inl) in &periph_addrs {
            if resps.iter().any(|r: &String| r.starts_with(&format!("{}:", a))) {
                continue;
            }
            if rng.chance(4, 5) {
                let kind = *rng.pick(&['s', 's', 's', 'r']);
                let l = if rng.chance(5, 6) { *inl } else { inl + 1 };
                resps.push(format!("{}:{}:{}", a, kind, l));
            }
        }
        for _ in 0..rng.below(3) {
            let a = rng.below(6) as u8;
            if a != addr && !resps.iter().any(|r| r.starts_with(&format!("{}:", a))) {
                resps.push(format!("{}:{}:{}", a, *rng.pick(&['s', 'm']), rng.below(3)));
            }
        }
        let add_every = if rng.chance(1, 4) { 60 + rng.below(120) } else { 0 };
        if add_every > 0 {
            for a in 20..23u8 {
                if rng.chance(2, 3) {
                    resps.push(format!("{}:s:1", a));
                }
            }
        }
        let npolls = if thorough { 400 + rng.below(800) } else { 250 + rng.below(350) };
        let noise = *rng.pick(&[0u64, 0, 5, 20, 60]);
        let take = *rng.pick(&[0u64, 50, 100]);
        let off_every = if rng.chance(1, 6) { 40 + rng.below(100) } else { 0 };
        let per_lo = 2 + rng.below(6);
        let per_hi = per_lo + rng.below(24);
        out(format!(
            "APPS {} {} {} {} {} {} {} {} {} / {} / {} / {} {} {} {} {} {} {}",
            addr,
            baud,
            slot_bits,
            hsa,
            gap,
            ttr,
            retry,
            rng.below(1 << 30),
            rng.below(1000) as i64 * 1000,
            apps.join(" "),
            resps.join(" "),
            npolls,
            per_lo,
            per_hi,
            noise,
            take,
            off_every,
            add_every
        ));
    }
}
