//! DP domain (C03 C04 C07 C08 C14): the real `DpMaster` driven directly through its public
//! `FdlApplication` impl against scripted reference slaves.
//!
//! Case line (sections separated by " ; "):
//!   DP <addr> <baud 0..10> <slot_bits> <max_retry> <min_tsdr> <wd_ms|-> <bufsize> <A|V><nslots> <autotake 0|1> <t0>
//!   P <slot|-|L> <addr> <ident> <sync><freeze><failsafe> <groups> <max_tsdr> <prm hex|-|N> <cfg hex|-|N> <in> <out> <diagbuf>
//!   S <addr> <ident> <cfg hex|-> <in> <out>                      (slave k belongs to peripheral k)
//!   ops: X0 X1 D Q L M:<reply> J:<reply> W:<reply> T<dt> RD<k> WQ<k>:<hex> RA<k>:<addr> OP CLR STP TK ADD<k> ADDF<k> PC<k>
//!        SF<k>:<silent>:<ready_delay>:<stat_diag>:<diag_pending>:<force1>:<force2>:<ext hex>:<ident> CLEAN
//!   <reply> = sc | dx:<status>:<pdu> | dg:<dsap|->:<ssap|->:<status>:<pdu> | rq:<pdu> | raw:<hex>
//!   <pdu>   = <hex|-> | @<delta>:<seed>    (length of the addressed peripheral's input image + delta)
//! X = transmit_telegram (skipped while a reply is pending); D Q L M J W resolve a pending request
//! (deliver / request lost / reply lost / slave sees it but the reply is replaced / injected reply, slave
//! sees nothing / injected reply bypassing the FDL admission filter); they are skipped when nothing is pending.
//!
//! Result = transcript, records separated by " ; ", each `<action> [| <observables>]`; see run_dp.ml.
use crate::codec::ref_frame;
use crate::util::*;
use profirust::dp::*;
use profirust::fdl::*;
use std::fmt::Write as _;
use std::sync::{Arc, Mutex};

// ------------------------------------------------------------------------------------------ configuration

#[derive(Clone, Debug)]
struct PConf {
    slot: Option<usize>,
    late: bool,
    addr: u8,
    ident: u16,
    sync: bool,
    freeze: bool,
    fail_safe: bool,
    groups: u8,
    max_tsdr: u16,
    prm: Option<Vec<u8>>,
    cfg: Option<Vec<u8>>,
    in_len: usize,
    out_len: usize,
    diag: usize,
}

#[derive(Clone, Debug)]
struct Conf {
    addr: u8,
    baud: usize,
    slot_bits: u16,
    max_retry: u8,
    min_tsdr: u8,
    wd_ms: Option<u64>,
    bufsize: usize,
    owned: bool,
    nslots: usize,
    autotake: bool,
    t0: i64,
    periphs: Vec<PConf>,
    slaves: Vec<Slave>,
    ops: Vec<String>,
}

const BAUDS: [profirust::Baudrate; 11] = [
    profirust::Baudrate::B9600,
    profirust::Baudrate::B19200,
    profirust::Baudrate::B31250,
    profirust::Baudrate::B45450,
    profirust::Baudrate::B93750,
    profirust::Baudrate::B187500,
    profirust::Baudrate::B500000,
    profirust::Baudrate::B1500000,
    profirust::Baudrate::B3000000,
    profirust::Baudrate::B6000000,
    profirust::Baudrate::B12000000,
];
const MIN_SLOT: [u16; 11] = [100, 100, 100, 100, 100, 100, 200, 300, 400, 600, 1000];

fn opt_hex(s: &str) -> Option<Vec<u8>> {
    if s == "N" {
        None
    } else {
        Some(unhex(s))
    }
}
fn hex_opt(o: &Option<Vec<u8>>) -> String {
    match o {
        None => "N".into(),
        Some(v) => hex(v),
    }
}

fn parse_case(line: &str) -> Result<Conf, String> {
    let mut conf: Option<Conf> = None;
    for sec in line.split(';') {
        let p: Vec<&str> = sec.split_whitespace().collect();
        if p.is_empty() {
            continue;
        }
        match p[0] {
            "DP" if p.len() == 11 => {
                let st = p[8];
                conf = Some(Conf {
                    addr: p[1].parse().map_err(|_| "addr")?,
                    baud: p[2].parse().map_err(|_| "baud")?,
                    slot_bits: p[3].parse().map_err(|_| "slot")?,
                    max_retry: p[4].parse().map_err(|_| "retry")?,
                    min_tsdr: p[5].parse().map_err(|_| "tsdr")?,
                    wd_ms: if p[6] == "-" { None } else { Some(p[6].parse().map_err(|_| "wd")?) },
                    bufsize: p[7].parse().map_err(|_| "buf")?,
                    owned: st.starts_with('V'),
                    nslots: st[1..].parse().map_err(|_| "nslots")?,
                    autotake: p[9] == "1",
                    t0: p[10].parse().map_err(|_| "t0")?,
                    periphs: vec![],
                    slaves: vec![],
                    ops: vec![],
                });
            }
            "P" if p.len() == 12 => {
                let c = conf.as_mut().ok_or("P before DP")?;
                let fl = p[4].as_bytes();
                c.periphs.push(PConf {
                    slot: if p[1] == "-" || p[1] == "L" { None } else { Some(p[1].parse().map_err(|_| "slot")?) },
                    late: p[1] == "L",
                    addr: p[2].parse().map_err(|_| "paddr")?,
                    ident: p[3].parse().map_err(|_| "ident")?,
                    sync: fl[0] == b'1',
                    freeze: fl[1] == b'1',
                    fail_safe: fl[2] == b'1',
                    groups: p[5].parse().map_err(|_| "groups")?,
                    max_tsdr: p[6].parse().map_err(|_| "max_tsdr")?,
                    prm: opt_hex(p[7]),
                    cfg: opt_hex(p[8]),
                    in_len: p[9].parse().map_err(|_| "in")?,
                    out_len: p[10].parse().map_err(|_| "out")?,
                    diag: p[11].parse().map_err(|_| "diag")?,
                });
            }
            "S" if p.len() == 6 => {
                let c = conf.as_mut().ok_or("S before DP")?;
                c.slaves.push(Slave::new(
                    p[1].parse().map_err(|_| "saddr")?,
                    p[2].parse().map_err(|_| "sident")?,
                    unhex(p[3]),
                    p[4].parse().map_err(|_| "sin")?,
                    p[5].parse().map_err(|_| "sout")?,
                ));
            }
            _ => {
                let c = conf.as_mut().ok_or("op before DP")?;
                for t in p {
                    c.ops.push(t.to_string());
                }
            }
        }
    }
    conf.ok_or_else(|| "no DP section".to_string())
}

// ------------------------------------------------------------------------------------------ reference slave (twin of coq/Model/Slave.v)

#[derive(Clone, Debug)]
struct Slave {
    addr: u8,
    ident: u16,
    exp_cfg: Vec<u8>,
    in_len: usize,
    out_len: usize,
    silent: bool,
    ready_delay: usize,
    stat_diag: bool,
    force1: u8,
    force2: u8,
    ext: Vec<u8>,
    st: u8, // 0 Wait_Prm, 1 Wait_Cfg, 2 Data_Exch
    master: Option<u8>,
    fcb: Option<bool>,
    resp: Option<Vec<u8>>,
    prm_fault: bool,
    cfg_fault: bool,
    wd_on: bool,
    freeze: bool,
    sync: bool,
    not_ready: usize,
    diag_pending: bool,
    outputs: Vec<u8>,
    counter: u64,
    gc: Option<u8>,
}

impl Slave {
    fn new(addr: u8, ident: u16, cfg: Vec<u8>, in_len: usize, out_len: usize) -> Self {
        Slave {
            addr,
            ident,
            exp_cfg: cfg,
            in_len,
            out_len,
            silent: false,
            ready_delay: 0,
            stat_diag: false,
            force1: 0,
            force2: 0,
            ext: vec![],
            st: 0,
            master: None,
            fcb: None,
            resp: None,
            prm_fault: false,
            cfg_fault: false,
            wd_on: false,
            freeze: false,
            sync: false,
            not_ready: 0,
            diag_pending: false,
            outputs: vec![0; out_len],
            counter: 0,
            gc: None,
        }
    }

    fn power_cycle(&mut self) {
        self.st = 0;
        self.master = None;
        self.fcb = None;
        self.resp = None;
        self.prm_fault = false;
        self.cfg_fault = false;
        self.wd_on = false;
        self.freeze = false;
        self.sync = false;
        self.not_ready = 0;
        self.diag_pending = false;
        self.outputs = vec![0; self.out_len];
        self.gc = None;
    }

    fn diag_pdu(&self) -> Vec<u8> {
        let not_ready = self.st != 2 || self.not_ready != 0;
        let st1 = ((not_ready as u8) * 2 + (self.cfg_fault as u8) * 4 + ((!self.ext.is_empty()) as u8) * 8 + (self.prm_fault as u8) * 64)
            | self.force1;
        let st2 = (((self.st == 0) as u8) + (self.stat_diag as u8) * 2 + 4 + (self.wd_on as u8) * 8 + (self.freeze as u8) * 16 + (self.sync as u8) * 32)
            | self.force2;
        let mut v = vec![st1, st2, 0, self.master.unwrap_or(255), (self.ident >> 8) as u8, (self.ident & 255) as u8];
        v.extend_from_slice(&self.ext);
        v
    }

    fn response(&self, req: &DataTelegramHeader, status: u8, pdu: &[u8]) -> Vec<u8> {
        // response: state Slave (0), SAPs swapped
        ref_frame(req.sa, self.addr, req.ssap, req.dsap, status, pdu)
    }

    fn process(&mut self, h: &DataTelegramHeader, pdu: &[u8]) -> Option<Vec<u8>> {
        const RS: u8 = 3; // "service not activated"
        if h.dsap == Some(60) && h.ssap == Some(62) {
            let reply = self.response(h, 8, &self.diag_pdu());
            self.not_ready = self.not_ready.saturating_sub(1);
            self.diag_pending = false;
            Some(reply)
        } else if h.dsap == Some(61) && h.ssap == Some(62) {
            let b = |i: usize| pdu.get(i).copied().unwrap_or(0);
            let ident = 256 * b(4) as u16 + b(5) as u16;
            if pdu.len() >= 7 && ident == self.ident {
                self.st = 1;
                self.master = Some(h.sa);
                self.prm_fault = false;
                self.cfg_fault = false;
                self.wd_on = b(0) & 8 != 0;
                self.freeze = b(0) & 16 != 0;
                self.sync = b(0) & 32 != 0;
                self.not_ready = 0;
            } else {
                self.st = 0;
                self.master = None;
                self.prm_fault = true;
                self.cfg_fault = false;
                self.wd_on = false;
                self.freeze = false;
                self.sync = false;
                self.not_ready = 0;
            }
            Some(vec![0xE5])
        } else if h.dsap == Some(62) && h.ssap == Some(62) {
            if self.st == 0 {
                Some(self.response(h, RS, &[]))
            } else if pdu == &self.exp_cfg[..] {
                self.st = 2;
                self.cfg_fault = false;
                self.not_ready = self.ready_delay;
                Some(vec![0xE5])
            } else {
                self.st = 0;
                self.master = None;
                self.cfg_fault = true;
                self.wd_on = false;
                self.freeze = false;
                self.sync = false;
                self.not_ready = 0;
                Some(vec![0xE5])
            }
        } else if h.dsap.is_none() && h.ssap.is_none() {
            if self.st == 2 && self.not_ready == 0 && pdu.len() == self.out_len {
                let high = self.diag_pending || self.stat_diag;
                self.counter += 1;
                self.outputs = pdu.to_vec();
                if self.in_len == 0 {
                    Some(vec![0xE5])
                } else {
                    let c = self.counter;
                    let inputs: Vec<u8> = (0..self.in_len).map(|i| ((c + i as u64) % 256) as u8).collect();
                    Some(self.response(h, if high { 10 } else { 8 }, &inputs))
                }
            } else {
                Some(self.response(h, RS, &[]))
            }
        } else {
            Some(self.response(h, RS, &[]))
        }
    }

    fn step(&mut self, wire: &[u8]) -> Option<Vec<u8>> {
        if self.silent {
            return None;
        }
        let (h, pdu) = match Telegram::deserialize(wire) {
            Some(Ok((Telegram::Data(t), n))) if n == wire.len() => (t.h.clone(), t.pdu.to_vec()),
            _ => return None,
        };
        let (f, r) = match h.fc {
            FunctionCode::Request { fcb, req } => (fcb, req),
            _ => return None,
        };
        if !(h.da == 127 || h.da == self.addr) {
            return None;
        }
        match r {
            RequestType::SdnLow | RequestType::SdnHigh => {
                if h.dsap == Some(58) {
                    self.gc = Some(pdu.first().copied().unwrap_or(0));
                }
                None
            }
            RequestType::SrdLow | RequestType::SrdHigh => {
                if h.da != self.addr {
                    return None;
                }
                if f.fcv() {
                    if self.fcb == Some(f.fcb()) {
                        return self.resp.clone();
                    }
                    let resp = self.process(&h, &pdu);
                    self.fcb = Some(f.fcb());
                    self.resp = resp.clone();
                    resp
                } else {
                    let resp = self.process(&h, &pdu);
                    self.fcb = if f.fcb() { Some(true) } else { None };
                    self.resp = resp.clone();
                    resp
                }
            }
            _ => None,
        }
    }
}

// ------------------------------------------------------------------------------------------ running a case

fn ev_code(e: PeripheralEvent) -> u8 {
    e as u8
}

fn events_str(e: &DpEvents) -> String {
    match e.peripheral {
        Some((h, ev)) => format!("{},{},{},{}", e.cycle_completed as u8, h.verif_index(), h.address(), ev_code(ev)),
        None => format!("{},-", e.cycle_completed as u8),
    }
}

fn periph_str(p: &Peripheral) -> String {
    let d = match p.last_diagnostics() {
        None => "-".to_string(),
        Some(d) => format!(
            "{},{},{},{}",
            d.flags.bits(),
            d.ident_number,
            opt_str(d.master_address),
            match d.extended_diagnostics.raw_diag_buffer() {
                None => "N".to_string(),
                Some(b) => hex(b),
            }
        ),
    };
    format!("{}{}:{}:{}:{}", p.is_live() as u8, p.is_running() as u8, hex(p.pi_i()), hex(p.pi_q()), d)
}

fn op_code(o: OperatingState) -> u8 {
    o as u8
}

/// Build the reply bytes for an M/J/W op. `da` = address of the pending request, `own` = master.
fn build_reply(spec: &str, da: u8, own: u8, in_len: usize) -> Vec<u8> {
    let p: Vec<&str> = spec.split(':').collect();
    let pdu_of = |toks: &[&str]| -> Vec<u8> {
        if toks.is_empty() {
            return vec![];
        }
        if let Some(rest) = toks[0].strip_prefix('@') {
            let delta: i64 = rest.parse().unwrap_or(0);
            let seed: u64 = toks.get(1).and_then(|s| s.parse().ok()).unwrap_or(0);
            let n = (in_len as i64 + delta).clamp(0, 244) as usize;
            (0..n).map(|i| ((seed * 7 + i as u64 * 13 + 1) % 256) as u8).collect()
        } else {
            unhex(toks[0])
        }
    };
    let popt = |s: &str| -> Option<u8> {
        if s == "-" {
            None
        } else {
            s.parse().ok()
        }
    };
    match p[0] {
        "sc" => vec![0xE5],
        "dx" if p.len() >= 3 => {
            let st: u8 = p[1].parse().unwrap_or(8);
            ref_frame(own, da, None, None, st & 0x3f, &pdu_of(&p[2..]))
        }
        "dg" if p.len() >= 5 => {
            let st: u8 = p[3].parse().unwrap_or(8);
            ref_frame(own, da, popt(p[1]), popt(p[2]), st & 0x3f, &pdu_of(&p[4..]))
        }
        "rq" if p.len() >= 2 => ref_frame(own, da, None, None, 0x6d, &pdu_of(&p[1..])),
        "raw" if p.len() >= 2 => unhex(p[1]),
        _ => vec![0xE5],
    }
}

struct Run<'a> {
    conf: &'a Conf,
    master: DpMaster<'a>,
    fdl: FdlActiveStation,
    handles: Vec<Option<PeripheralHandle>>,
    slaves: Vec<Slave>,
    now: i64,
    pending: Option<(u8, Vec<u8>)>,
    last_obs: Vec<String>,
    last_op: String,
    out: Arc<Mutex<String>>,
    first: bool,
    /// current station address of configured peripheral k (changed by reset_address)
    cur_addr: Vec<u8>,
}

impl<'a> Run<'a> {
    fn emit(&self, s: &str) {
        self.out.lock().unwrap().push_str(s);
    }

    fn begin(&mut self, action: &str) {
        if !self.first {
            self.emit(" ; ");
        }
        self.first = false;
        self.emit(action);
    }

    /// observables after an action: taken events (if any) and whatever changed
    fn finish(&mut self, taken: Option<String>) {
        let mut s = String::new();
        if let Some(t) = taken {
            write!(s, " E={}", t).unwrap();
        }
        for k in 0..self.handles.len() {
            let cur = match self.handles[k] {
                Some(h) => periph_str(self.master.get_mut(h)),
                None => "?".to_string(),
            };
            if cur != self.last_obs[k] {
                write!(s, " P{}={}", k, cur).unwrap();
                self.last_obs[k] = cur;
            }
        }
        let op = op_code(self.master.operating_state()).to_string();
        if op != self.last_op {
            write!(s, " O={}", op).unwrap();
            self.last_op = op;
        }
        if !s.is_empty() {
            self.emit(" |");
            self.emit(&s);
        }
    }

    fn autotake(&mut self) -> Option<String> {
        if self.conf.autotake {
            Some(events_str(&self.master.take_last_events()))
        } else {
            None
        }
    }

    fn instant(&self) -> profirust::time::Instant {
        profirust::time::Instant::from_micros(self.now)
    }

    fn slave_sees(&mut self, k: usize, wire: &[u8]) -> Option<Vec<u8>> {
        let r = self.slaves[k].step(wire);
        self.begin(&format!("SV {} {} {}", k, hex(wire), match &r {
            Some(b) => hex(b),
            None => "N".into(),
        }));
        r
    }

    /// deliver reply bytes to the master the way the FDL would
    fn deliver(&mut self, da: u8, bytes: &[u8], raw: bool) -> Result<(), String> {
        let own = self.conf.addr;
        let parsed = match Telegram::deserialize(bytes) {
            Some(Ok((t, n))) if n == bytes.len() => Some(t),
            _ => None,
        };
        match parsed {
            None => self.timeout(da),
            Some(t) => {
                let admissible = match &t {
                    Telegram::Token(_) => false,
                    Telegram::ShortConfirmation(_) => true,
                    Telegram::Data(d) => d.h.sa == da && d.h.da == own && matches!(d.h.fc, FunctionCode::Response { .. }),
                };
                if admissible || raw {
                    self.begin(&format!("{} {} {} {}", if admissible { "RX" } else { "RW" }, self.now, da, hex(bytes)));
                    let now = self.instant();
                    let (m, f) = (&mut self.master, &self.fdl);
                    match guarded(|| m.receive_reply(now, f, da, t)) {
                        Ok(()) => {
                            let tk = self.autotake();
                            self.finish(tk);
                            Ok(())
                        }
                        Err(loc) => {
                            self.emit(&format!(" PANIC {}", loc));
                            Err(loc)
                        }
                    }
                } else {
                    // a valid telegram that is no admissible reply: the FDL goes back to idle, no callback
                    self.begin("AB");
                    self.finish(None);
                    Ok(())
                }
            }
        }
    }

    fn timeout(&mut self, da: u8) -> Result<(), String> {
        self.begin(&format!("TO {} {}", self.now, da));
        let now = self.instant();
        let (m, f) = (&mut self.master, &self.fdl);
        match guarded(|| m.handle_timeout(now, f, da)) {
            Ok(()) => {
                let tk = self.autotake();
                self.finish(tk);
                Ok(())
            }
            Err(loc) => {
                self.emit(&format!(" PANIC {}", loc));
                Err(loc)
            }
        }
    }

    fn slave_index(&self, da: u8) -> Option<usize> {
        self.slaves.iter().position(|s| s.addr == da)
    }

    fn in_len_of(&self, da: u8) -> usize {
        self.cur_addr.iter().position(|a| *a == da).map(|k| self.conf.periphs[k].in_len).unwrap_or(0)
    }

    fn op(&mut self, op: &str) -> Result<(), String> {
        let own = self.conf.addr;
        if op == "X0" || op == "X1" {
            if self.pending.is_some() {
                return Ok(());
            }
            let hp = op == "X1";
            self.begin(&format!("X {} {} ", self.now, hp as u8));
            let mut buf = vec![0xA5u8; self.conf.bufsize] /* stale bytes: a PHY reuses its buffer (seeded R5-C03-1) */;
            let now = self.instant();
            let (m, f) = (&mut self.master, &self.fdl);
            let r = guarded(|| {
                let tx = TelegramTx::new(&mut buf);
                m.transmit_telegram(now, f, tx, if hp { HighPrioOnly::Yes } else { HighPrioOnly::No })
            });
            match r {
                Err(loc) => {
                    self.emit(&format!("PANIC {}", loc));
                    return Err(loc);
                }
                Ok(None) => {
                    self.emit("N");
                    let tk = self.autotake();
                    self.finish(tk);
                }
                Ok(Some(resp)) => {
                    let n = resp.bytes_sent().min(buf.len());
                    let wire = buf[..n].to_vec();
                    self.emit(&format!("S {} {}", hex(&wire), opt_str(resp.expects_reply())));
                    let tk = self.autotake();
                    self.finish(tk);
                    match resp.expects_reply() {
                        Some(da) => self.pending = Some((da, wire)),
                        None => {
                            // unacknowledged (global control): every slave sees it
                            for k in 0..self.slaves.len() {
                                let _ = self.slave_sees(k, &wire);
                            }
                        }
                    }
                }
            }
            return Ok(());
        }
        let kind = op.chars().next().unwrap_or(' ');
        if matches!(kind, 'D' | 'Q' | 'L' | 'M' | 'J' | 'W') && !op.starts_with("WQ") {
            let (da, wire) = match self.pending.take() {
                Some(p) => p,
                None => return Ok(()),
            };
            let sees = matches!(kind, 'D' | 'L' | 'M');
            let mut reply = None;
            if sees {
                if let Some(k) = self.slave_index(da) {
                    reply = self.slave_sees(k, &wire);
                }
            }
            return match kind {
                'D' => match reply {
                    Some(b) => self.deliver(da, &b, false),
                    None => self.timeout(da),
                },
                'Q' | 'L' => self.timeout(da),
                _ => {
                    let spec = if op.len() > 2 { &op[2..] } else { "sc" };
                    let b = build_reply(spec, da, own, self.in_len_of(da));
                    self.deliver(da, &b, kind == 'W')
                }
            };
        }
        if let Some(dt) = op.strip_prefix('T').filter(|r| r.chars().all(|c| c.is_ascii_digit()) && !r.is_empty()) {
            self.now += dt.parse::<i64>().unwrap_or(0);
            return Ok(());
        }
        if op == "TK" {
            self.begin("TK");
            let e = events_str(&self.master.take_last_events());
            self.finish(Some(e));
            return Ok(());
        }
        if op == "OP" || op == "CLR" || op == "STP" {
            let st = match op {
                "OP" => OperatingState::Operate,
                "CLR" => OperatingState::Clear,
                _ => OperatingState::Stop,
            };
            self.begin(&format!("EN {} ", op_code(st)));
            let m = &mut self.master;
            match guarded(|| m.enter_state(st)) {
                Ok(()) => self.emit("ok"),
                Err(_) => self.emit("unw"),
            }
            self.finish(None);
            return Ok(());
        }
        if op == "CLEAN" {
            self.begin("CLEAN");
            self.finish(None);
            return Ok(());
        }
        if let Some(r) = op.strip_prefix("RD") {
            let k: usize = r.parse().map_err(|_| "RD")?;
            if let Some(Some(h)) = self.handles.get(k).copied() {
                self.begin(&format!("RD {}", k));
                self.master.get_mut(h).request_diagnostics();
                self.finish(None);
            }
            return Ok(());
        }
        if let Some(r) = op.strip_prefix("RA") {
            // get_mut(h).reset_address(addr): at any point, also while a reply is outstanding
            let (ks, a) = r.split_once(':').ok_or("RA")?;
            let k: usize = ks.parse().map_err(|_| "RA")?;
            let a: u8 = a.parse().map_err(|_| "RA")?;
            if let Some(Some(h)) = self.handles.get(k).copied() {
                self.begin(&format!("RA {} {}", k, a));
                let m = &mut self.master;
                match guarded(|| m.get_mut(h).reset_address(a)) {
                    Ok(()) => {
                        self.cur_addr[k] = a;
                        self.finish(None);
                    }
                    Err(loc) => {
                        self.emit(&format!(" PANIC {}", loc));
                        return Err(loc);
                    }
                }
            }
            return Ok(());
        }
        if let Some(r) = op.strip_prefix("WQ") {
            let (ks, hx) = r.split_once(':').ok_or("WQ")?;
            let k: usize = ks.parse().map_err(|_| "WQ")?;
            if let Some(Some(h)) = self.handles.get(k).copied() {
                let n = self.conf.periphs[k].out_len;
                // the user can change contents, never the length: fit the data to the image
                let mut q = unhex(hx);
                q.resize(n, 0x5a);
                self.begin(&format!("WQ {} {}", k, hex(&q)));
                self.master.get_mut(h).pi_q_mut().copy_from_slice(&q);
                self.finish(None);
            }
            return Ok(());
        }
        if let Some(r) = op.strip_prefix("ADD") {
            // ADD<k>: only between requests; ADDF<k>: also while a reply is pending (not generated)
            let (forced, r) = match r.strip_prefix('F') {
                Some(r2) => (true, r2),
                None => (false, r),
            };
            let k: usize = r.parse().map_err(|_| "ADD")?;
            if k < self.handles.len() && self.handles[k].is_none() && (forced || self.pending.is_none()) {
                self.begin(&format!("ADD {} ", k));
                let p = make_periph(&self.conf.periphs[k]);
                let m = &mut self.master;
                match guarded(|| m.add(p)) {
                    Ok(h) => {
                        self.handles[k] = Some(h);
                        self.emit(&format!("{} {}", h.verif_index(), h.address()));
                        self.finish(None);
                    }
                    Err(loc) => {
                        self.emit(&format!("PANIC {}", loc));
                        return Err(loc);
                    }
                }
            }
            return Ok(());
        }
        if let Some(r) = op.strip_prefix("PC") {
            let k: usize = r.parse().map_err(|_| "PC")?;
            if k < self.slaves.len() {
                self.slaves[k].power_cycle();
                self.begin(&format!("PC {}", k));
                self.finish(None);
            }
            return Ok(());
        }
        if let Some(r) = op.strip_prefix("SF") {
            let f: Vec<&str> = r.split(':').collect();
            if f.len() == 9 {
                let k: usize = f[0].parse().map_err(|_| "SF")?;
                if k < self.slaves.len() {
                    let s = &mut self.slaves[k];
                    s.silent = f[1] == "1";
                    s.ready_delay = f[2].parse().map_err(|_| "SF")?;
                    s.stat_diag = f[3] == "1";
                    s.diag_pending = s.diag_pending || f[4] == "1";
                    s.force1 = f[5].parse().map_err(|_| "SF")?;
                    s.force2 = f[6].parse().map_err(|_| "SF")?;
                    s.ext = unhex(f[7]);
                    s.ident = f[8].parse().map_err(|_| "SF")?;
                    self.begin(&format!("SF {} {} {} {} {} {} {} {} {}", k, f[1], f[2], f[3], f[4], f[5], f[6], hex(&unhex(f[7])), f[8]));
                    self.finish(None);
                }
            }
            return Ok(());
        }
        Err(format!("BADOP {}", op))
    }
}

/// The buffers a peripheral borrows live as long as the process (a few hundred bytes per case).
fn leak(v: &Option<Vec<u8>>) -> Option<&'static [u8]> {
    v.as_ref().map(|v| &*Box::leak(v.clone().into_boxed_slice()))
}

fn make_periph(c: &PConf) -> Peripheral<'static> {
    let options = PeripheralOptions {
        ident_number: c.ident,
        sync_mode: c.sync,
        freeze_mode: c.freeze,
        groups: c.groups,
        max_tsdr: c.max_tsdr,
        fail_safe: c.fail_safe,
        user_parameters: leak(&c.prm),
        config: leak(&c.cfg),
    };
    let p = Peripheral::new(c.addr, options, vec![0u8; c.in_len], vec![0u8; c.out_len]);
    if c.diag > 0 {
        p.with_diag_buffer(vec![0u8; c.diag])
    } else {
        p
    }
}

fn run_inner(conf: &Conf, out: Arc<Mutex<String>>) {
    // parameters through the real builder (watchdog factors are computed by the crate)
    let params = match guarded(|| {
        let mut b = ParametersBuilder::new(conf.addr, BAUDS[conf.baud.min(10)]);
        b.slot_bits(conf.slot_bits).max_retry_limit(conf.max_retry).min_tsdr(conf.min_tsdr);
        if let Some(ms) = conf.wd_ms {
            b.watchdog_timeout(profirust::time::Duration::from_millis(ms));
        }
        b.build()
    }) {
        Ok(p) => p,
        Err(loc) => {
            out.lock().unwrap().push_str(&format!("SETUP-PANIC {}", loc));
            return;
        }
    };
    let wd = match params.watchdog_factors {
        Some((a, b)) => format!("{},{}", a, b),
        None => "-".into(),
    };
    let fdl = FdlActiveStation::new(params);
    // storage with the pre-placed peripherals
    let mut storage: Vec<PeripheralStorage<'static>> = (0..conf.nslots).map(|_| PeripheralStorage::default()).collect();
    for c in &conf.periphs {
        if let Some(i) = c.slot {
            if i < storage.len() {
                storage[i] = PeripheralStorage::verif_occupied(make_periph(c));
            }
        }
    }
    let master = if conf.owned {
        DpMaster::new(storage)
    } else {
        DpMaster::new(&mut *Box::leak(storage.into_boxed_slice()))
    };
    let mut run = Run {
        conf,
        master,
        fdl,
        handles: vec![None; conf.periphs.len()],
        slaves: conf.slaves.clone(),
        now: conf.t0,
        pending: None,
        last_obs: vec!["?".to_string(); conf.periphs.len()],
        last_op: "?".to_string(),
        out,
        first: true,
        cur_addr: conf.periphs.iter().map(|p| p.addr).collect(),
    };
    run.begin(&format!("INIT {} ", wd));
    // handles of pre-placed peripherals, then add() for the others
    let placed: Vec<PeripheralHandle> = run.master.iter().map(|(h, _)| h).collect();
    for (k, c) in conf.periphs.iter().enumerate() {
        if let Some(i) = c.slot {
            run.handles[k] = placed.iter().copied().find(|h| usize::from(h.verif_index()) == i && i < conf.nslots);
        } else if !c.late {
            let p = make_periph(c);
            let m = &mut run.master;
            match guarded(|| m.add(p)) {
                Ok(h) => run.handles[k] = Some(h),
                Err(loc) => {
                    run.emit(&format!("PANIC {}", loc));
                    return;
                }
            }
        }
    }
    let hs: Vec<String> = run
        .handles
        .iter()
        .map(|h| match h {
            Some(h) => format!("{}", h.verif_index()),
            None => "-".into(),
        })
        .collect();
    run.emit(&format!("H{}", hs.join(",")));
    run.finish(None);
    for op in conf.ops.clone() {
        if run.op(&op).is_err() {
            return;
        }
    }
}

pub fn run_case(line: &str) -> String {
    log::set_max_level(log::LevelFilter::Info); // Debug-formatting of ExtendedDiagnostics is C17's business (F5)
    let conf = match parse_case(line) {
        Ok(c) => c,
        Err(e) => return format!("BADCASE {}", e),
    };
    let out = Arc::new(Mutex::new(String::new()));
    let out2 = out.clone();
    let (txc, rxc) = std::sync::mpsc::channel::<()>();
    let th = std::thread::Builder::new().stack_size(8 << 20).spawn(move || {
        crate::util::install_panic_hook();
        run_inner(&conf, out2);
        let _ = txc.send(());
    });
    if th.is_err() {
        return "BADCASE thread".into();
    }
    match rxc.recv_timeout(std::time::Duration::from_secs(10)) {
        Ok(()) => out.lock().unwrap().clone(),
        Err(_) => {
            // the real code hangs (or the worker died): report what was seen so far
            let s = out.lock().unwrap().clone();
            format!("{}TIMEOUT", s)
        }
    }
}

// ------------------------------------------------------------------------------------------ generation

struct GenCfg {
    nper: usize,
    big: bool,
    faults: bool,
    clean_tail: bool,
    steps: usize,
    inject: bool,
    resets: bool,
    /// slaves that stay "not ready" for 3..8 diagnostics polls after Chk_Cfg (fault-free tail), small max_retry
    slow: bool,
    /// the token keeps arriving late: about every second transmit call is HighPrioOnly::Yes
    late: bool,
}

fn gen_reply_spec(rng: &mut Rng) -> String {
    const ST: [u8; 9] = [0, 1, 2, 3, 8, 9, 10, 12, 13];
    match rng.below(10) {
        0 => "sc".to_string(),
        1 | 2 | 3 => {
            let st = *rng.pick(&ST);
            let delta = *rng.pick(&[0i64, 0, 0, 1, -1, 2, -200, 50]);
            format!("dx:{}:@{}:{}", st, delta, rng.below(250))
        }
        4 | 5 | 6 => {
            let (d, s) = match rng.below(6) {
                0 => ("62", "61"),
                1 => ("61", "60"),
                2 => ("-", "60"),
                3 => ("62", "-"),
                _ => ("62", "60"),
            };
            let st = *rng.pick(&ST);
            let len = *rng.pick(&[6usize, 6, 6, 6, 0, 3, 5, 7, 12, 40]);
            let mut pdu = rng.bytes(len);
            if len >= 6 {
                // flags: mostly plausible
                pdu[0] = *rng.pick(&[0u8, 0, 2, 4, 8, 64, 2, 0x0a, 0xff]);
                pdu[1] = *rng.pick(&[4u8, 4, 5, 0, 0x0c, 6, 0xff]);
                pdu[3] = *rng.pick(&[255u8, 1, 2, 0]);
            }
            format!("dg:{}:{}:{}:{}", d, s, st, hex(&pdu))
        }
        7 => format!("rq:{}", hex(&rng.bytes(2))),
        8 => format!("raw:{}", hex(&{
            let n = 1 + rng.below(8) as usize;
            rng.bytes(n)
        })),
        _ => {
            let st = *rng.pick(&ST);
            format!("dx:{}:{}", st, hex(&{
                let n = rng.below(6) as usize;
                rng.bytes(n)
            }))
        }
    }
}

fn gen_case(rng: &mut Rng, g: &GenCfg) -> String {
    let mut s = String::new();
    let addr = if rng.chance(3, 4) { 1 + rng.below(8) as u8 } else { rng.below(126) as u8 };
    let baud = if rng.chance(1, 2) { 1 } else { rng.below(11) as usize };
    let slot_bits = MIN_SLOT[baud] + if rng.chance(1, 3) { rng.below(400) as u16 } else { 0 };
    let mut max_retry = match rng.below(10) {
        0..=4 => 1,
        5 | 6 => 2,
        7 => 3,
        8 => 1 + rng.below(15) as u8,
        _ => 15,
    };
    if g.slow {
        max_retry = 1 + rng.below(3) as u8;
    }
    let min_tsdr = if rng.chance(2, 3) { 11 } else { 11 + rng.below(245) as u8 };
    let wd = match rng.below(6) {
        0 | 1 | 2 => "-".to_string(),
        3 => (10 + rng.below(3000)).to_string(),
        4 => (10 + rng.below(649_991)).to_string(),
        _ => (*rng.pick(&[10u64, 19, 20, 2550, 2560, 2551, 650_000, 649_999, 65025 * 10 - 260])).to_string(),
    };
    let bufsize = if rng.chance(19, 20) { 256 } else { *rng.pick(&[0usize, 5, 12, 20, 64, 255, 300]) };
    let nper = g.nper;
    let sparse = rng.chance(1, 4);
    let owned = !sparse && rng.chance(1, 3);
    let nslots = if owned {
        rng.below(3) as usize
    } else if sparse {
        nper + 1 + rng.below(4) as usize
    } else if rng.chance(1, 25) {
        nper.saturating_sub(1)
    } else {
        nper + rng.below(3) as usize
    };
    let autotake = rng.chance(9, 10);
    let t0 = if rng.chance(9, 10) { rng.below(1_000_000) as i64 } else { rng.range(-1_000_000, 1_000_000) };
    write!(s, "DP {} {} {} {} {} {} {} {}{} {} {}", addr, baud, slot_bits, max_retry, min_tsdr, wd, bufsize, if owned { "V" } else { "A" }, nslots, autotake as u8, t0).unwrap();
    // peripherals and their slaves
    let mut used: Vec<u8> = vec![addr];
    let mut free_slots: Vec<usize> = (0..nslots).collect();
    let mut plines = vec![];
    let mut slines = vec![];
    let mut lens = vec![];
    for _ in 0..nper {
        let mut a = 2 + rng.below(40) as u8;
        if rng.chance(1, 10) {
            a = rng.below(126) as u8;
        }
        if used.contains(&a) && !rng.chance(1, 30) {
            a = (0..126u8).find(|x| !used.contains(x)).unwrap_or(a);
        }
        used.push(a);
        let ident = if rng.chance(1, 2) { rng.below(65536) as u16 } else { *rng.pick(&[0u16, 0x80a6, 0xffff, 0x0100]) };
        let blen = |rng: &mut Rng, big: bool| -> usize {
            if big && rng.chance(1, 3) {
                *rng.pick(&[32usize, 100, 200, 236, 237, 238, 243, 244, 245])
            } else if rng.chance(1, 5) {
                0
            } else {
                1 + rng.below(8) as usize
            }
        };
        let n1 = blen(rng, g.big);
        let prm = if rng.chance(1, 40) { None } else { Some(rng.bytes(n1)) };
        let n2 = blen(rng, g.big);
        let cfg = if rng.chance(1, 40) { None } else { Some(rng.bytes(n2)) };
        let in_len = blen(rng, g.big).min(if rng.chance(1, 30) { 250 } else { 244 });
        let out_len = blen(rng, g.big);
        let diag = *rng.pick(&[0usize, 0, 6, 16, 64]);
        let slot = if sparse && !free_slots.is_empty() && rng.chance(3, 4) {
            let i = rng.below(free_slots.len() as u64) as usize;
            free_slots.remove(i).to_string()
        } else if rng.chance(1, 12) {
            "L".to_string()
        } else {
            "-".to_string()
        };
        plines.push(format!(
            "P {} {} {} {}{}{} {} {} {} {} {} {} {}",
            slot, a, ident, rng.chance(1, 4) as u8, rng.chance(1, 4) as u8, rng.chance(1, 2) as u8,
            rng.byte(), rng.below(300), hex_opt(&prm), hex_opt(&cfg), in_len, out_len, diag
        ));
        // the device: usually matching
        let s_ident = if g.faults && rng.chance(1, 12) { ident.wrapping_add(1) } else { ident };
        let s_cfg = match &cfg {
            Some(c) if !(g.faults && rng.chance(1, 12)) => c.clone(),
            _ => rng.bytes(2),
        };
        let s_in = if g.faults && rng.chance(1, 15) { in_len + 1 } else { in_len };
        let s_out = if g.faults && rng.chance(1, 15) { out_len + 1 } else { out_len };
        slines.push(format!("S {} {} {} {} {}", a, s_ident, hex(&s_cfg), s_in, s_out));
        lens.push((ident, out_len));
    }
    for l in plines.iter().chain(slines.iter()) {
        write!(s, " ; {}", l).unwrap();
    }
    // script
    let mut ops: Vec<String> = vec![];
    if rng.chance(1, 6) && nper > 0 {
        let k = rng.below(nper as u64) as usize;
        ops.push(format!("WQ{}:{}", k, hex(&rng.bytes(lens[k].1))));
    }
    if rng.chance(1, 8) {
        ops.push("X0".into());
    }
    match rng.below(40) {
        0 | 1 => ops.push("CLR".into()),
        2 => {}
        _ => ops.push("OP".into()),
    }
    if g.faults && nper > 0 && rng.chance(1, 3) {
        let k = rng.below(nper as u64) as usize;
        ops.push(format!("SF{}:1:0:0:0:0:0:-:{}", k, lens[k].0));
    }
    let paddrs: Vec<u8> = used[1..].to_vec();
    let reset_ops = g.resets;
    let user = |rng: &mut Rng, ops: &mut Vec<String>, pending: bool| {
        if nper == 0 {
            ops.push("TK".into());
            return;
        }
        let k = rng.below(nper as u64) as usize;
        match rng.below(if reset_ops { 10 } else { 8 }) {
            0 | 1 => ops.push(format!("RD{}", k)),
            2 | 3 | 4 => ops.push(format!("WQ{}:{}", k, hex(&rng.bytes(lens[k].1)))),
            5 => ops.push(format!("ADD{}", k)),
            8 | 9 => {
                // reset_address: mostly between bus events, sometimes while the reply is outstanding;
                // mostly to the current (configured) address, sometimes to a fresh one and back
                if pending && !rng.chance(1, 4) {
                    ops.push("TK".into());
                } else if rng.chance(2, 3) {
                    ops.push(format!("RA{}:{}", k, paddrs[k]));
                } else {
                    let fresh = (60..120u8).find(|x| !used.contains(x)).unwrap_or(119);
                    ops.push(format!("RA{}:{}", k, fresh + (k as u8)));
                }
            }
            _ => ops.push("TK".into()),
        }
    };
    for _ in 0..g.steps {
        if rng.chance(1, 5) {
            ops.push(format!("T{}", if rng.chance(1, 6) { rng.below(400_000) } else { rng.below(3000) }));
        }
        if rng.chance(1, 12) {
            user(rng, &mut ops, false);
        }
        let hp = if g.late { rng.chance(1, 2) } else { rng.chance(1, 40) };
        if g.late && rng.chance(1, 10) {
            // long enough for the next Global_Control to be due
            ops.push(format!("T{}", 300_000 + rng.below(400_000)));
        }
        ops.push(if hp { "X1".into() } else { "X0".into() });
        if rng.chance(1, 10) {
            user(rng, &mut ops, true);
        }
        let mut r = rng.below(1000);
        if g.inject && rng.chance(1, 3) {
            r = 900 + rng.below(95);
        }
        if !g.faults || r < 800 {
            ops.push("D".into());
        } else if r < 850 {
            ops.push("Q".into());
        } else if r < 900 {
            ops.push("L".into());
        } else if r < 975 {
            ops.push(format!("M:{}", gen_reply_spec(rng)));
        } else if r < 995 {
            ops.push(format!("J:{}", gen_reply_spec(rng)));
        } else {
            ops.push(format!("W:{}", gen_reply_spec(rng)));
        }
        if g.faults && nper > 0 && rng.chance(1, 40) {
            let k = rng.below(nper as u64) as usize;
            match rng.below(4) {
                0 => ops.push(format!("PC{}", k)),
                1 => ops.push(format!("SF{}:1:0:0:0:0:0:-:{}", k, lens[k].0)),
                2 => ops.push(format!("SF{}:0:{}:{}:{}:{}:{}:{}:{}", k, rng.below(3), rng.chance(1, 4) as u8, rng.chance(1, 2) as u8,
                    *rng.pick(&[0u8, 0, 2, 4, 64, 8]), *rng.pick(&[0u8, 0, 1, 2]), hex(&{
                        let n = *rng.pick(&[0usize, 0, 3, 8, 70]);
                        rng.bytes(n)
                    }), lens[k].0)),
                _ => ops.push(format!("SF{}:0:0:0:0:0:0:-:{}", k, lens[k].0)),
            }
        }
        if rng.chance(1, 300) {
            ops.push((*rng.pick(&["CLR", "STP", "OP", "OP"])).into());
        }
    }
    if g.clean_tail {
        // faults end: every device behaves, nothing is lost any more
        ops.push("D".into());
        ops.push("OP".into());
        let mut max_delay = 0usize;
        for k in 0..nper {
            let rd = if g.slow && rng.chance(2, 3) { 3 + rng.below(6) as usize } else { 0 };
            max_delay = max_delay.max(rd);
            ops.push(format!("SF{}:0:{}:0:0:0:0:-:{}", k, rd, lens[k].0));
            if g.resets {
                // back to the configured address: a new bring-up in the fault-free tail
                ops.push(format!("RA{}:{}", k, paddrs[k]));
            }
        }
        ops.push("CLEAN".into());
        let tail = 40 + nper * (14 + 3 * max_retry as usize) * 2 + (nper + 1) * 3 * max_delay;
        for _ in 0..tail {
            if rng.chance(1, 6) {
                ops.push(format!("T{}", rng.below(2000)));
            }
            if g.late && rng.chance(1, 25) {
                ops.push(format!("T{}", 300_000 + rng.below(400_000)));
            }
            ops.push(if g.late && rng.chance(1, 2) { "X1".into() } else { "X0".into() });
            ops.push("D".into());
        }
    }
    write!(s, " ; {}", ops.join(" ")).unwrap();
    s
}

pub fn gen(seed: u64, thorough: bool, out: &mut dyn FnMut(String)) {
    let mut rng = Rng::new(seed ^ 0xD9);
    let scale = if thorough { 10 } else { 1 };
    // zero peripherals (F4), every storage kind
    for st in ["A0", "A3", "V0"] {
        out(format!("DP 2 1 100 1 11 - 256 {} 1 0 ; OP X0 X0 T300000 X0 X0", st));
    }
    // clean bring-up and data exchange, no faults
    for i in 0..500 * scale {
        let g = GenCfg { nper: 1 + (i % 4), big: i % 7 == 0, faults: false, clean_tail: false, steps: 20 + rng.below(60) as usize, inject: false, resets: i % 3 == 0, slow: false, late: i % 5 == 2 };
        out(gen_case(&mut rng, &g));
    }
    // fault histories
    for i in 0..3000 * scale {
        let g = GenCfg { nper: i % 5, big: i % 9 == 0, faults: true, clean_tail: false, steps: 20 + rng.below(140) as usize, inject: i % 4 == 0, resets: i % 3 == 1, slow: false, late: i % 6 == 3 };
        out(gen_case(&mut rng, &g));
    }
    // fault histories followed by a fault-free tail (recovery, C07)
    for i in 0..1200 * scale {
        let g = GenCfg { nper: 1 + (i % 4), big: false, faults: true, clean_tail: true, steps: 10 + rng.below(80) as usize, inject: i % 2 == 0, resets: i % 4 == 1, slow: i % 3 == 0, late: i % 7 == 2 };
        out(gen_case(&mut rng, &g));
    }
}
