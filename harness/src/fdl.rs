//! FDL domain (C01 C05 C06 C11 C12 C13 C15): one real `FdlActiveStation` driven poll by poll
//! through a scripted PHY, scripted applications and a reactive scripted environment.
//!
//! Case line (input):
//!   FDL <addr> <baud 0..10> <slot_bits> <hsa> <gap> <ttr_bits> <max_retry> <seed> <t0> [<min_tsdr_bits>, default 11]
//!       { / APP[*] <decision>... } / ENV <peer/op>...
//!   decision: `D` (decline) or `<K><da>,<pduhex|->,<dsap|->,<ssap|->[,l]`  K = N sdn-low, M sdn-high,
//!             R srd-low, H srd-high, A sda-low, F fdl-status, C clock-value; `,l` = decline when
//!             only high priority telegrams are allowed.  `APP*` repeats its list forever.
//!   peer:     `p<addr>:<st>:<data>:<tsdr_bits>:<master 0|1>:<next>:<delay_bits>:<poll_ts 0|1>`
//!             st   = reaction to an FDL status request: s n r i (slave / not ready / ready / in ring),
//!                    x none, g bad checksum, w wrong source, u token instead, h truncated, l late,
//!                    y ready but wrong destination, z ready with status != Ok
//!             data = reaction to a request that expects a reply: k response, c short confirmation,
//!                    l late, f foreign source, d foreign destination, q request, t token, g bad
//!                    checksum, h truncated, x none
//!   ops:      on off pas | per:<lo>:<hi> (poll period in 1/32 slot times) | run:<n> | skip:<k> |
//!             inj:<hex> (bytes appear at once) | injt:<hex> (bytes arrive at line speed) |
//!             start:<addr> (give the token to an environment master) | kill:<addr> | rev:<addr> |
//!             cut:<addr>:<n> (that master's next token telegram breaks off after n bytes, then it is dead) |
//!             busy:<mode>[:<bits>] (what poll_transmission answers: 0 exact, 1 never, 2 late by <bits> - the
//!             transmission really lasts that much longer, peers react to its real end -, 3 random, 4 exact inclusive)
//!
//! Result (after ` => `): the transcript, events separated by `;`
//!   `A <name> <obs>`                                              API call
//!   `P <now> <busy> <rxhex> > <txhex> <consumed> <calls> <obs>`   one poll: inputs > outputs
//!   `PANIC <loc>`                                                 the last call panicked
//!   `TIMEOUT`                                                     the last call did not return within the per-case limit
//!   calls: `-` or `,`-separated  T<i>:<hp>:<D|S>:<exp|->  R<i>:<addr>:<telegram>  O<i>:<addr>
//!   obs:   `=` (unchanged) or `c<conn>r<in_ring>/<ns>/<ps>/<las state>/<active,..>/<fingerprint>`
use crate::util::*;
use profirust::fdl::*;
use profirust::phy::ProfibusPhy;
use profirust::time::Instant;
use profirust::Baudrate;
use std::cell::RefCell;
use std::fmt::Write as _;
use std::rc::Rc;
use std::sync::{Arc, Mutex};

pub const BAUDS: [Baudrate; 11] = [
    Baudrate::B9600,
    Baudrate::B19200,
    Baudrate::B31250,
    Baudrate::B45450,
    Baudrate::B93750,
    Baudrate::B187500,
    Baudrate::B500000,
    Baudrate::B1500000,
    Baudrate::B3000000,
    Baudrate::B6000000,
    Baudrate::B12000000,
];
const MIN_SLOT: [u16; 11] = [100, 100, 100, 100, 100, 100, 200, 300, 400, 600, 1000];

// ------------------------------------------------------------------------------------------ PHY

struct HPhy {
    rx: Vec<u8>,
    sent: Option<Vec<u8>>,
    busy: bool,
    consumed: usize,
}

impl ProfibusPhy for HPhy {
    fn poll_transmission(&mut self, _now: Instant) -> bool {
        self.busy
    }

    fn transmit_data<F, R>(&mut self, _now: Instant, f: F) -> R
    where
        F: FnOnce(&mut [u8]) -> (usize, R),
    {
        assert!(!self.busy, "harness PHY: transmit while transmission in progress");
        let mut buf = [0xA5u8; 256];
        let (n, r) = f(&mut buf);
        if n > 0 {
            assert!(self.sent.is_none(), "harness PHY: second transmission in one poll");
            self.sent = Some(buf[..n].to_vec());
        }
        r
    }

    fn receive_data<F, R>(&mut self, _now: Instant, f: F) -> R
    where
        F: FnOnce(&[u8]) -> (usize, R),
    {
        assert!(!self.busy, "harness PHY: receive while transmission in progress");
        let (n, r) = f(&self.rx);
        assert!(n <= self.rx.len(), "harness PHY: dropped more than buffered");
        self.rx.drain(..n);
        self.consumed += n;
        r
    }
}

// ------------------------------------------------------------------------------------------ applications

#[derive(Clone)]
enum Decision {
    Decline,
    Send { kind: char, da: u8, pdu: Vec<u8>, dsap: Option<u8>, ssap: Option<u8>, low_only: bool },
}

struct SApp {
    idx: usize,
    decisions: Vec<Decision>,
    pos: usize,
    looping: bool,
    log: Rc<RefCell<Vec<String>>>,
}

pub fn req_of_kind(kind: char) -> FunctionCode {
    let (fcb, req) = match kind {
        'N' => (FrameCountBit::Inactive, RequestType::SdnLow),
        'M' => (FrameCountBit::Inactive, RequestType::SdnHigh),
        'R' => (FrameCountBit::First, RequestType::SrdLow),
        'H' => (FrameCountBit::High, RequestType::SrdHigh),
        'A' => (FrameCountBit::Low, RequestType::SdaLow),
        'F' => (FrameCountBit::Inactive, RequestType::FdlStatus),
        _ => (FrameCountBit::Inactive, RequestType::ClockValue),
    };
    FunctionCode::Request { fcb, req }
}

impl FdlApplication for SApp {
    fn transmit_telegram(
        &mut self,
        _now: Instant,
        fdl: &FdlActiveStation,
        tx: TelegramTx,
        high_prio_only: HighPrioOnly,
    ) -> Option<TelegramTxResponse> {
        let hp = high_prio_only == HighPrioOnly::Yes;
        let d = if self.pos < self.decisions.len() {
            let d = self.decisions[self.pos].clone();
            self.pos += 1;
            if self.looping && self.pos == self.decisions.len() {
                self.pos = 0;
            }
            d
        } else {
            Decision::Decline
        };
        let r = match d {
            Decision::Decline => None,
            Decision::Send { low_only, .. } if low_only && hp => None,
            Decision::Send { kind, da, pdu, dsap, ssap, .. } => Some(tx.send_data_telegram(
                DataTelegramHeader { da, sa: fdl.parameters().address, dsap, ssap, fc: req_of_kind(kind) },
                pdu.len(),
                |b| b.copy_from_slice(&pdu),
            )),
        };
        self.log.borrow_mut().push(match r {
            None => format!("T{}:{}:D:-", self.idx, hp as u8),
            Some(r) => format!("T{}:{}:S:{}", self.idx, hp as u8, opt_str(r.expects_reply())),
        });
        r
    }

    fn receive_reply(&mut self, _now: Instant, _fdl: &FdlActiveStation, addr: u8, telegram: Telegram) {
        self.log.borrow_mut().push(format!("R{}:{}:{}", self.idx, addr, telegram_dots(&telegram)));
    }

    fn handle_timeout(&mut self, _now: Instant, _fdl: &FdlActiveStation, addr: u8) {
        self.log.borrow_mut().push(format!("O{}:{}", self.idx, addr));
    }
}

fn telegram_dots(t: &Telegram) -> String {
    match t {
        Telegram::Data(d) => format!(
            "D.{}.{}.{}.{}.{}.{}",
            d.h.da,
            d.h.sa,
            opt_str(d.h.dsap),
            opt_str(d.h.ssap),
            crate::codec::fc_str(d.h.fc),
            hex(d.pdu)
        ),
        Telegram::Token(t) => format!("T.{}.{}", t.da, t.sa),
        Telegram::ShortConfirmation(_) => "S".to_string(),
    }
}

fn parse_decision(s: &str) -> Decision {
    if s == "D" {
        return Decision::Decline;
    }
    let kind = s.chars().next().unwrap();
    let parts: Vec<&str> = s[1..].split(',').collect();
    Decision::Send {
        kind,
        da: parts[0].parse().expect("da"),
        pdu: unhex(parts[1]),
        dsap: parse_opt(parts[2]),
        ssap: parse_opt(parts[3]),
        low_only: parts.get(4) == Some(&"l"),
    }
}

// ------------------------------------------------------------------------------------------ environment

#[derive(Clone)]
struct Peer {
    addr: u8,
    alive: bool,
    st: char,
    data: char,
    tsdr_bits: u64,
    master: bool,
    next: u8,
    orig_next: u8,
    delay_bits: u64,
    poll_ts: bool,
    awaiting: bool,
}

#[derive(Clone, Copy)]
enum Ev {
    Byte(u8),
    Turn(u8),
    AfterPoll(u8),
    Pass(u8),
    Check(u8, u8, i64),
}

struct Env {
    peers: Vec<Peer>,
    queue: Vec<(i64, u64, Ev)>,
    seq: u64,
    bus_free: i64,
    last_ts_tx: i64,
    rate: u64,
    slot_bits: u64,
    ts: u8,
    rng: Rng,
    /// the station's transmissions really last this much longer than 11 bit per byte (busy mode 2)
    tx_extra_bits: u64,
    /// (peer, n): this peer's next token telegram breaks off after n bytes and the peer is dead
    cut: Option<(u8, usize)>,
}

fn build<F: FnOnce(TelegramTx) -> TelegramTxResponse>(f: F) -> Vec<u8> {
    let mut buf = [0u8; 256];
    let n = f(TelegramTx::new(&mut buf)).bytes_sent();
    buf[..n].to_vec()
}

impl Env {
    fn bit(&self, bits: u64) -> i64 {
        (bits * 1_000_000 / self.rate) as i64
    }
    fn push(&mut self, t: i64, ev: Ev) {
        self.seq += 1;
        self.queue.push((t, self.seq, ev));
    }
    fn peer(&self, a: u8) -> Option<usize> {
        self.peers.iter().position(|p| p.addr == a)
    }
    /// Put bytes on the bus starting at `at` (or when the environment's previous telegram ended).
    fn transmit(&mut self, at: i64, bytes: &[u8]) -> i64 {
        let start = at.max(self.bus_free);
        for (i, b) in bytes.iter().enumerate() {
            let t = start + self.bit(11 * (i as u64 + 1));
            self.push(t, Ev::Byte(*b));
        }
        let end = start + self.bit(11 * bytes.len() as u64);
        self.bus_free = end;
        end
    }
    fn pass_token(&mut self, m: usize, t: i64) {
        let (sa, da) = (self.peers[m].addr, self.peers[m].next);
        if let Some((who, n)) = self.cut {
            if who == sa {
                self.cut = None;
                self.peers[m].alive = false;
                self.transmit(t, &[0xDC, da, sa][..n.min(2).max(1)]);
                return;
            }
        }
        let end = self.transmit(t, &[0xDC, da, sa]);
        if da == self.ts {
            let slot = self.bit(self.slot_bits + 60);
            self.push(end + slot, Ev::Check(sa, 0, end));
        } else if let Some(n) = self.peer(da) {
            if self.peers[n].master && self.peers[n].alive {
                let d = self.bit(self.peers[n].delay_bits);
                self.push(end + d, Ev::Turn(da));
            }
        }
    }
    fn turn(&mut self, m: usize, t: i64) {
        if !self.peers[m].alive {
            return;
        }
        if self.peers[m].poll_ts && self.peers[m].next != self.ts {
            let (sa, ts) = (self.peers[m].addr, self.ts);
            let w = build(|tx| tx.send_fdl_status_request(ts, sa));
            let end = self.transmit(t, &w);
            self.peers[m].awaiting = true;
            let slot = self.bit(self.slot_bits + 60);
            self.push(end + slot, Ev::AfterPoll(sa));
        } else {
            self.pass_token(m, t);
        }
    }
    /// Process all events due at `now`; bytes go to the station's receive buffer.
    fn process(&mut self, now: i64, rx: &mut Vec<u8>) {
        loop {
            let mut best: Option<usize> = None;
            for (i, e) in self.queue.iter().enumerate() {
                if e.0 <= now && best.map(|b| (e.0, e.1) < (self.queue[b].0, self.queue[b].1)).unwrap_or(true) {
                    best = Some(i);
                }
            }
            let Some(i) = best else { break };
            let (t, _, ev) = self.queue.swap_remove(i);
            match ev {
                Ev::Byte(b) => rx.push(b),
                Ev::Turn(a) => {
                    if let Some(m) = self.peer(a) {
                        self.turn(m, t);
                    }
                }
                Ev::AfterPoll(a) => {
                    if let Some(m) = self.peer(a) {
                        if self.peers[m].awaiting {
                            self.peers[m].awaiting = false;
                            self.pass_token(m, t);
                        }
                    }
                }
                Ev::Pass(a) => {
                    if let Some(m) = self.peer(a) {
                        if self.peers[m].alive {
                            self.pass_token(m, t);
                        }
                    }
                }
                Ev::Check(a, attempt, pass_end) => {
                    if let Some(m) = self.peer(a) {
                        if self.last_ts_tx <= pass_end && self.peers[m].alive {
                            if attempt < 2 {
                                let (sa, da) = (self.peers[m].addr, self.ts);
                                let end = self.transmit(t, &[0xDC, da, sa]);
                                let slot = self.bit(self.slot_bits + 60);
                                self.push(end + slot, Ev::Check(a, attempt + 1, end));
                            } else {
                                self.peers[m].next = self.peers[m].orig_next;
                                if self.peers[m].next != self.ts {
                                    self.pass_token(m, t);
                                }
                            }
                        }
                    }
                }
            }
        }
    }
    /// React to a transmission of the station under test.
    fn on_ts_tx(&mut self, now: i64, bytes: &[u8]) {
        self.last_ts_tx = now;
        let end = now + self.bit(11 * bytes.len() as u64 + self.tx_extra_bits);
        let ts = self.ts;
        let Some(Ok((t, _))) = Telegram::deserialize(bytes) else { return };
        match t {
            Telegram::Token(tok) => {
                if tok.da != ts {
                    if let Some(n) = self.peer(tok.da) {
                        if self.peers[n].master && self.peers[n].alive {
                            let d = self.bit(self.peers[n].delay_bits);
                            self.push(end + d, Ev::Turn(tok.da));
                        }
                    }
                }
            }
            Telegram::ShortConfirmation(_) => {}
            Telegram::Data(d) => {
                let Some(x) = self.peer(d.h.da) else { return };
                if !self.peers[x].alive {
                    return;
                }
                let p = self.peers[x].clone();
                match d.h.fc {
                    FunctionCode::Response { state, .. } => {
                        if p.master && p.awaiting {
                            self.peers[x].awaiting = false;
                            if matches!(state, ResponseState::MasterWithoutToken | ResponseState::MasterInRing) {
                                self.peers[x].next = ts;
                            }
                            let dl = self.bit(p.delay_bits);
                            self.push(end + dl, Ev::Pass(p.addr));
                        }
                    }
                    FunctionCode::Request { req: RequestType::FdlStatus, .. } => {
                        let a = p.addr;
                        let good = |st: ResponseState| build(|tx| tx.send_fdl_status_response(ts, a, st, ResponseStatus::Ok));
                        let mut at = end + self.bit(p.tsdr_bits);
                        let w: Option<Vec<u8>> = match p.st {
                            's' => Some(good(ResponseState::Slave)),
                            'n' => Some(good(ResponseState::MasterNotReady)),
                            'r' => Some(good(ResponseState::MasterWithoutToken)),
                            'i' => Some(good(ResponseState::MasterInRing)),
                            'g' => {
                                let mut w = good(ResponseState::MasterInRing);
                                w[4] ^= 0x10;
                                Some(w)
                            }
                            'w' => Some(build(|tx| {
                                tx.send_fdl_status_response(ts, (a + 1) % 126, ResponseState::MasterInRing, ResponseStatus::Ok)
                            })),
                            'y' => Some(build(|tx| {
                                tx.send_fdl_status_response(ts ^ 1, a, ResponseState::MasterWithoutToken, ResponseStatus::Ok)
                            })),
                            'z' => Some(build(|tx| {
                                tx.send_fdl_status_response(ts, a, ResponseState::MasterInRing, ResponseStatus::NoResources)
                            })),
                            'u' => Some(vec![0xDC, a, a]),
                            'h' => Some(good(ResponseState::Slave)[..3].to_vec()),
                            'l' => {
                                at = end + self.bit(self.slot_bits + 40);
                                Some(good(ResponseState::MasterWithoutToken))
                            }
                            _ => None,
                        };
                        if let Some(w) = w {
                            self.transmit(at, &w);
                        }
                    }
                    FunctionCode::Request { req, .. } => {
                        if !req.expects_reply() {
                            return;
                        }
                        let a = p.addr;
                        let n = self.rng.below(6) as usize;
                        let pdu = self.rng.bytes(n);
                        let resp = |da: u8, sa: u8, fc: FunctionCode| {
                            build(|tx| {
                                tx.send_data_telegram(
                                    DataTelegramHeader { da, sa, dsap: d.h.ssap, ssap: d.h.dsap, fc },
                                    pdu.len(),
                                    |b| b.copy_from_slice(&pdu),
                                )
                            })
                        };
                        let ok = FunctionCode::Response { state: ResponseState::Slave, status: ResponseStatus::DataLow };
                        let mut at = end + self.bit(p.tsdr_bits);
                        let w: Option<Vec<u8>> = match p.data {
                            'k' => Some(resp(ts, a, ok)),
                            'c' => Some(vec![0xE5]),
                            'l' => {
                                at = end + self.bit(self.slot_bits + 40);
                                Some(resp(ts, a, ok))
                            }
                            'f' => Some(resp(ts, a ^ 1, ok)),
                            'd' => Some(resp(ts ^ 1, a, ok)),
                            'q' => Some(resp(ts, a, FunctionCode::Request { fcb: FrameCountBit::First, req: RequestType::SrdLow })),
                            't' => Some(vec![0xDC, ts, a]),
                            'g' => {
                                let mut w = resp(ts, a, ok);
                                let l = w.len();
                                w[l - 2] ^= 0x01;
                                Some(w)
                            }
                            'h' => {
                                let w = resp(ts, a, ok);
                                Some(w[..w.len() / 2].to_vec())
                            }
                            _ => None,
                        };
                        if let Some(w) = w {
                            self.transmit(at, &w);
                        }
                    }
                }
            }
        }
    }
}

// ------------------------------------------------------------------------------------------ running a case

struct Runner {
    fdl: FdlActiveStation,
    phy: HPhy,
    apps: Vec<SApp>,
    log: Rc<RefCell<Vec<String>>>,
    env: Env,
    now: i64,
    tx_end: i64,
    busy_mode: u8,
    late_bits: u64,
    per: (u64, u64),
    slot_us: u64,
    out: String,
    shared: Arc<Mutex<String>>,
    last_obs: String,
    rng: Rng,
    polls: usize,
}

fn obs_of(fdl: &FdlActiveStation) -> String {
    let ring = fdl.inspect_token_ring();
    let act: Vec<String> = ring.iter_active_stations().map(|a| a.to_string()).collect();
    format!(
        "c{}r{}/{}/{}/{}/{}/{}",
        fdl.connectivity_state() as u8,
        fdl.is_in_ring() as u8,
        ring.next_station(),
        ring.previous_station(),
        match profirust::verif_hooks::fdl::las_state_name(fdl) {
            "Valid" => "A",
            n => &n[..1],
        },
        if act.is_empty() { "-".to_string() } else { act.join(",") },
        compress(&profirust::verif_hooks::fdl::fingerprint(fdl))
    )
}

/// Drop the `field_name:` prefixes of the Debug-derived fingerprint (variant names stay).
fn compress(s: &str) -> String {
    let b = s.as_bytes();
    let mut out = String::with_capacity(s.len());
    let mut i = 0;
    while i < b.len() {
        if b[i].is_ascii_lowercase() || b[i] == b'_' {
            let mut j = i;
            while j < b.len() && (b[j].is_ascii_lowercase() || b[j] == b'_' || b[j].is_ascii_digit()) {
                j += 1;
            }
            if j < b.len() && b[j] == b':' {
                i = j + 1;
            } else {
                out.push_str(&s[i..j]);
                i = j;
            }
        } else {
            out.push(b[i] as char);
            i += 1;
        }
    }
    out
}

impl Runner {
    /// Move what was written so far into the transcript the watchdog can see.
    fn flush(&mut self) {
        self.shared.lock().unwrap().push_str(&self.out);
        self.out.clear();
    }

    fn emit_obs(&mut self) {
        let o = obs_of(&self.fdl);
        if o == self.last_obs {
            self.out.push('=');
        } else {
            self.out.push_str(&o);
            self.last_obs = o;
        }
    }

    fn api(&mut self, name: &str) -> bool {
        let fdl = &mut self.fdl;
        let r = guarded(|| match name {
            "on" => fdl.set_online(),
            "off" => fdl.set_offline(),
            _ => fdl.set_passive(),
        });
        write!(self.out, "A {} ", name).unwrap();
        match r {
            Ok(()) => {
                self.emit_obs();
                self.out.push(';');
                true
            }
            Err(loc) => {
                write!(self.out, "=;PANIC {}", loc).unwrap();
                false
            }
        }
    }

    fn poll(&mut self) -> bool {
        self.polls += 1;
        let now = self.now;
        self.env.process(now, &mut self.phy.rx);
        self.phy.busy = match self.busy_mode {
            0 => now < self.tx_end,
            1 => false,
            2 => now < self.tx_end + self.env.bit(self.late_bits),
            3 => now < self.tx_end + self.env.bit(20) && self.rng.chance(1, 2),
            _ => now <= self.tx_end,
        };
        self.phy.sent = None;
        self.phy.consumed = 0;
        self.log.borrow_mut().clear();
        write!(self.out, "P {} {} {} > ", now, self.phy.busy as u8, hex(&self.phy.rx)).unwrap();
        self.flush();
        let (fdl, phy, apps) = (&mut self.fdl, &mut self.phy, &mut self.apps);
        let r = guarded(|| {
            let mut refs: Vec<&mut dyn FdlApplication> = apps.iter_mut().map(|a| a as &mut dyn FdlApplication).collect();
            fdl.poll_multi(Instant::from_micros(now), phy, &mut refs);
        });
        let sent = self.phy.sent.take();
        let calls = self.log.borrow().join(",");
        write!(
            self.out,
            "{} {} {} ",
            sent.as_deref().map(hex).unwrap_or_else(|| "-".into()),
            self.phy.consumed,
            if calls.is_empty() { "-" } else { &calls }
        )
        .unwrap();
        match r {
            Ok(()) => {
                self.emit_obs();
                self.out.push(';');
                if let Some(b) = sent {
                    self.tx_end = now + self.env.bit(11 * b.len() as u64);
                    self.env.on_ts_tx(now, &b);
                }
                true
            }
            Err(loc) => {
                write!(self.out, "=;PANIC {}", loc).unwrap();
                false
            }
        }
    }

    fn advance(&mut self) {
        let k = self.per.0 + self.rng.below(self.per.1 - self.per.0 + 1);
        let base = (self.slot_us * k / 32).max(1);
        let jitter = self.rng.below(base / 8 + 1);
        self.now += (base + jitter) as i64;
    }
}

/// Run one case in a worker thread; if it does not finish within the limit (VERIF_CASE_TIMEOUT_S,
/// default 8 s) the transcript written so far is returned with a final `TIMEOUT` event.
pub fn run_case(line: &str) -> String {
    let limit: u64 = std::env::var("VERIF_CASE_TIMEOUT_S").ok().and_then(|s| s.parse().ok()).unwrap_or(8);
    let shared = Arc::new(Mutex::new(String::new()));
    let (tx, rx) = std::sync::mpsc::channel();
    let (l, sh) = (line.to_string(), shared.clone());
    std::thread::spawn(move || {
        let r = run_case_inner(&l, sh);
        let _ = tx.send(r);
    });
    match rx.recv_timeout(std::time::Duration::from_secs(limit)) {
        Ok(r) => r,
        Err(_) => {
            let mut t = shared.lock().unwrap().clone();
            if t.ends_with("> ") {
                t.push_str("- 0 - =;");
            } else if !t.is_empty() && !t.ends_with(';') {
                t.push(';');
            }
            t.push_str("TIMEOUT");
            t
        }
    }
}

fn run_case_inner(line: &str, shared: Arc<Mutex<String>>) -> String {
    let sections: Vec<&str> = line.split('/').map(|s| s.trim()).collect();
    let h: Vec<&str> = sections[0].split_whitespace().collect();
    assert!(h[0] == "FDL" && (h.len() == 10 || h.len() == 11), "bad FDL case header");
    let addr: u8 = h[1].parse().unwrap();
    let baud = BAUDS[h[2].parse::<usize>().unwrap()];
    let slot_bits: u16 = h[3].parse().unwrap();
    let hsa: u8 = h[4].parse().unwrap();
    let gap: u8 = h[5].parse().unwrap();
    let ttr: u32 = h[6].parse().unwrap();
    let retry: u8 = h[7].parse().unwrap();
    let seed: u64 = h[8].parse().unwrap();
    let t0: i64 = h[9].parse().unwrap();
    let min_tsdr: u8 = h.get(10).map(|x| x.parse().unwrap()).unwrap_or(11);

    let log = Rc::new(RefCell::new(Vec::new()));
    let mut apps = vec![];
    let mut envtoks: Vec<&str> = vec![];
    for s in &sections[1..] {
        let toks: Vec<&str> = s.split_whitespace().collect();
        match toks[0] {
            "APP" | "APP*" => apps.push(SApp {
                idx: apps.len(),
                decisions: toks[1..].iter().map(|d| parse_decision(d)).collect(),
                pos: 0,
                looping: toks[0] == "APP*",
                log: log.clone(),
            }),
            "ENV" => envtoks = toks[1..].to_vec(),
            _ => panic!("bad section"),
        }
    }

    let created = guarded(|| {
        let mut p = ParametersBuilder::new(addr.min(125), baud).build();
        p.address = addr;
        p.slot_bits = slot_bits;
        p.highest_station_address = hsa;
        p.gap_wait_rotations = gap;
        p.token_rotation_bits = ttr;
        p.max_retry_limit = retry;
        p.min_tsdr_bits = min_tsdr;
        FdlActiveStation::new(p)
    });
    let fdl = match created {
        Ok(f) => f,
        Err(loc) => return format!("A new =;PANIC {}", loc),
    };
    let rate = baud.to_rate();
    let slot_us = (slot_bits as u64 * 1_000_000 / rate).max(1);
    let mut r = Runner {
        fdl,
        phy: HPhy { rx: vec![], sent: None, busy: false, consumed: 0 },
        apps,
        log,
        env: Env {
            peers: vec![],
            queue: vec![],
            seq: 0,
            bus_free: t0,
            last_ts_tx: i64::MIN,
            rate,
            slot_bits: slot_bits as u64,
            ts: addr,
            rng: Rng::new(seed ^ 0x5555),
            tx_extra_bits: 0,
            cut: None,
        },
        now: t0,
        tx_end: i64::MIN / 2,
        busy_mode: 0,
        late_bits: 15,
        per: (2, 8),
        slot_us,
        out: String::with_capacity(1 << 10),
        shared: shared.clone(),
        last_obs: String::new(),
        rng: Rng::new(seed),
        polls: 0,
    };
    write!(r.out, "A new ").unwrap();
    r.emit_obs();
    r.out.push(';');

    for tok in envtoks {
        let f: Vec<&str> = tok.split(':').collect();
        let ok = match f[0] {
            "on" | "off" | "pas" => r.api(f[0]),
            "per" => {
                let lo: u64 = f[1].parse().unwrap();
                let hi: u64 = f[2].parse().unwrap();
                r.per = (lo.max(1), hi.max(lo.max(1)));
                true
            }
            "run" => {
                let n: usize = f[1].parse().unwrap();
                let mut ok = true;
                for _ in 0..n {
                    r.advance();
                    if !r.poll() {
                        ok = false;
                        break;
                    }
                }
                ok
            }
            "skip" => {
                let k: u64 = f[1].parse().unwrap();
                r.now += (r.slot_us * k / 32).max(1) as i64;
                true
            }
            "inj" => {
                r.phy.rx.extend_from_slice(&unhex(f[1]));
                true
            }
            "injt" => {
                let b = unhex(f[1]);
                let now = r.now;
                r.env.transmit(now, &b);
                true
            }
            "start" => {
                let a: u8 = f[1].parse().unwrap();
                let now = r.now;
                r.env.push(now, Ev::Turn(a));
                true
            }
            "cut" => {
                r.env.cut = Some((f[1].parse().unwrap(), f[2].parse().unwrap()));
                true
            }
            "kill" | "rev" => {
                let a: u8 = f[1].parse().unwrap();
                if let Some(i) = r.env.peer(a) {
                    r.env.peers[i].alive = f[0] == "rev";
                }
                true
            }
            "busy" => {
                r.busy_mode = f[1].parse().unwrap();
                if let Some(x) = f.get(2) {
                    r.late_bits = x.parse().unwrap();
                }
                r.env.tx_extra_bits = if r.busy_mode == 2 { r.late_bits } else { 0 };
                true
            }
            s if s.starts_with('p') && f.len() == 8 => {
                let next: u8 = f[5].parse().unwrap();
                r.env.peers.push(Peer {
                    addr: s[1..].parse().unwrap(),
                    alive: true,
                    st: f[1].chars().next().unwrap(),
                    data: f[2].chars().next().unwrap(),
                    tsdr_bits: f[3].parse().unwrap(),
                    master: f[4] == "1",
                    next,
                    orig_next: next,
                    delay_bits: f[6].parse().unwrap(),
                    poll_ts: f[7] == "1",
                    awaiting: false,
                });
                true
            }
            other => panic!("bad ENV token {other}"),
        };
        if !ok {
            break;
        }
    }
    r.flush();
    let mut t = shared.lock().unwrap().clone();
    if t.ends_with(';') {
        t.pop();
    }
    t
}

// ------------------------------------------------------------------------------------------ generation

struct Gen<'a> {
    rng: Rng,
    out: &'a mut dyn FnMut(String),
    n: u64,
}

#[derive(Clone)]
struct P {
    addr: u8,
    baud: usize,
    slot: u16,
    hsa: u8,
    gap: u8,
    ttr: u32,
    retry: u8,
    t0: i64,
    tsdr: u8,
}

fn tok(da: u8, sa: u8) -> String {
    hex(&[0xDC, da, sa])
}
fn sreq(da: u8, sa: u8) -> String {
    hex(&build(|tx| tx.send_fdl_status_request(da, sa)))
}
fn srsp(da: u8, sa: u8, st: u8) -> String {
    hex(&build(|tx| tx.send_fdl_status_response(da, sa, ResponseState::from_u8(st & 3).unwrap(), ResponseStatus::Ok)))
}
fn data_frame(da: u8, sa: u8, fc: FunctionCode, pdu: &[u8], dsap: Option<u8>, ssap: Option<u8>) -> String {
    hex(&build(|tx| tx.send_data_telegram(DataTelegramHeader { da, sa, dsap, ssap, fc }, pdu.len(), |b| b.copy_from_slice(pdu))))
}

impl<'a> Gen<'a> {
    fn params(&mut self) -> P {
        let r = &mut self.rng;
        let baud = *r.pick(&[0usize, 1, 1, 1, 2, 3, 4, 5, 5, 6, 6, 7, 7, 8, 9, 10]);
        let addr = match r.below(10) {
            0 => 0,
            1..=5 => r.range(1, 9) as u8,
            6..=7 => r.range(10, 30) as u8,
            8 => r.range(31, 124) as u8,
            _ => 125,
        };
        let hsa = match r.below(6) {
            0 => addr + 1,
            1 => 126,
            2 => (addr as i64 + r.range(2, 6)).min(126) as u8,
            _ => r.range(addr as i64 + 1, 126) as u8,
        };
        let slot = MIN_SLOT[baud] + *r.pick(&[0u16, 0, 0, 20, 100, 200, 1000]);
        let gap = *r.pick(&[1u8, 1, 2, 3, 5, 10, 100]);
        let ttr = match r.below(6) {
            0 => 256,
            1 => r.range(256, 3000) as u32,
            2 => hsa as u32 * 5000,
            3 => r.range(3000, 60000) as u32,
            4 if r.chance(1, 4) => 16_777_960,
            _ => 32436,
        };
        let t0 = *r.pick(&[0i64, 0, 1, 1000, 123_456, 5_000_000, 3_600_000_000]);
        let tsdr = if r.chance(2, 3) { 11 } else { *r.pick(&[12u8, 20, 60, 97, 150, 255]) };
        let retry = *r.pick(&[1u8, 1, 2, 3, 7, 15]);
        P { addr, baud, slot, hsa, gap, ttr, retry, t0, tsdr }
    }

    fn header(&mut self, p: &P) -> String {
        self.n += 1;
        let seed = self.rng.next() % 1_000_000;
        format!("FDL {} {} {} {} {} {} {} {} {} {}", p.addr, p.baud, p.slot, p.hsa, p.gap, p.ttr, p.retry, seed, p.t0, p.tsdr)
    }

    /// number of polls that certainly cover the token-lost timeout at period 8/32 slot
    fn claim_polls(p: &P) -> usize {
        (6 + 2 * p.addr as usize) * 4 + 12
    }

    fn decision(&mut self, targets: &[u8]) -> String {
        let r = &mut self.rng;
        if r.chance(1, 4) || targets.is_empty() {
            return "D".into();
        }
        let kind = *r.pick(&['N', 'M', 'R', 'R', 'R', 'H', 'A', 'F', 'C']);
        let da = *r.pick(targets);
        let n = *r.pick(&[0usize, 0, 1, 2, 8, 9, 32]);
        let pdu = r.bytes(n);
        let (dsap, ssap) = match r.below(4) {
            0 => (Some(r.byte()), Some(r.byte())),
            1 => (Some(r.byte()), None),
            _ => (None, None),
        };
        format!("{}{},{},{},{}{}", kind, da, hex(&pdu), opt_str(dsap), opt_str(ssap), if r.chance(1, 4) { ",l" } else { "" })
    }

    fn apps(&mut self, targets: &[u8]) -> String {
        let n = *self.rng.pick(&[0usize, 1, 1, 2, 3]);
        let mut s = String::new();
        for _ in 0..n {
            let looping = self.rng.chance(1, 3);
            let k = self.rng.range(0, 6) as usize;
            let ds: Vec<String> = (0..k).map(|_| self.decision(targets)).collect();
            write!(s, " / APP{} {}", if looping { "*" } else { "" }, ds.join(" ")).unwrap();
        }
        s
    }

    fn peer(&mut self, addr: u8, master: Option<(u8, bool)>) -> String {
        let r = &mut self.rng;
        let st = if master.is_some() { *r.pick(&['i', 'i', 'r']) } else { *r.pick(&['s', 's', 's', 'n', 'r', 'i', 'x', 'g', 'w', 'u', 'h', 'l', 'y', 'z']) };
        let data = *r.pick(&['k', 'k', 'k', 'c', 'l', 'f', 'd', 'q', 't', 'g', 'h', 'x']);
        let tsdr = *r.pick(&[11u64, 11, 15, 30, 60]);
        let (m, next, poll) = match master {
            Some((n, p)) => (1, n, p as u8),
            None => (0, addr, 0),
        };
        format!("p{}:{}:{}:{}:{}:{}:{}:{}", addr, st, data, tsdr, m, next, *r.pick(&[34u64, 40, 60, 90]), poll)
    }

    /// a random telegram of the adversarial alphabet as an injection token
    fn injection(&mut self, p: &P, others: &[u8]) -> String {
        let r = &mut self.rng;
        let mut alpha: Vec<u8> = vec![p.addr, p.addr.wrapping_add(1) % 126, p.addr.wrapping_sub(1).min(125), 0, 125, 126, 127, 200, 255];
        alpha.extend_from_slice(others);
        let a = *r.pick(&alpha);
        let b = *r.pick(&alpha);
        let body = match r.below(13) {
            0..=3 => tok(a, b),
            4 => tok(p.addr, b),
            5 => sreq(a & 127, b & 127),
            6 => sreq(p.addr, b & 127),
            7 => srsp(a & 127, b & 127, r.byte()),
            8 => hex(&[0xE5]),
            9 => data_frame(a & 127, b & 127, FunctionCode::Response { state: ResponseState::Slave, status: ResponseStatus::DataLow }, &r.bytes(3), None, None),
            12 => data_frame(a & 127, b & 127, req_of_kind(*r.pick(&['R', 'N', 'A', 'H'])), &r.bytes(2), None, None),
            10 => {
                // garbage / truncated
                let n = r.range(1, 7) as usize;
                hex(&r.bytes(n))
            }
            _ => {
                let mut w = unhex(&sreq(p.addr, b & 127));
                let i = r.below(w.len() as u64) as usize;
                if r.chance(1, 2) {
                    w[i] ^= 1 << r.below(8);
                } else {
                    w.truncate(i.max(1));
                }
                hex(&w)
            }
        };
        // sometimes two telegrams at once
        let body = if r.chance(1, 6) {
            let second = match r.below(3) {
                0 => tok(a, b),
                1 => tok(p.addr, b),
                _ => sreq(p.addr, a & 127),
            };
            format!("{}{}", body, second)
        } else {
            body
        };
        format!("{}:{}", if r.chance(1, 2) { "inj" } else { "injt" }, body)
    }

    fn emit(&mut self, s: String) {
        (self.out)(s);
    }

    /// station alone on the bus (claims the token), responders around it
    fn solo(&mut self, adversarial: bool) {
        let p = self.params();
        let mut peers = vec![];
        let mut targets = vec![];
        let np = self.rng.range(0, 4);
        for _ in 0..np {
            let a = match self.rng.below(5) {
                0 => p.hsa.wrapping_sub(1),
                1 => p.addr.wrapping_sub(1).min(125),
                2 => (p.addr + 1) % 126,
                3 => self.rng.range(0, 125) as u8,
                _ => self.rng.range(0, (p.hsa as i64 - 1).max(0)) as u8,
            };
            if a != p.addr && !targets.contains(&a) {
                targets.push(a);
                peers.push(self.peer(a, None));
            }
        }
        if self.rng.chance(1, 3) {
            targets.push(self.rng.range(0, 126) as u8);
        }
        let apps = self.apps(&targets);
        let gap_len = p.hsa as usize;
        let mut env = format!("{} on per:8:8 run:{} per:{}:{}", peers.join(" "), Self::claim_polls(&p), 2, 8);
        let mut budget = 260 + gap_len * 6;
        if p.addr > 30 {
            budget = budget.min(500);
        }
        if adversarial {
            let others = targets.clone();
            while budget > 0 {
                let k = self.rng.range(1, 40) as usize;
                write!(env, " run:{}", k).unwrap();
                let inj = self.injection(&p, &others);
                write!(env, " {}", inj).unwrap();
                budget = budget.saturating_sub(k);
            }
            write!(env, " run:40").unwrap();
        } else {
            write!(env, " run:{}", budget).unwrap();
            if self.rng.chance(1, 3) {
                write!(env, " per:6:14 run:120").unwrap();
            }
        }
        let h = self.header(&p);
        self.emit(format!("{}{} / ENV {}", h, apps, env));
    }

    /// an environment ring of 1..3 masters that polls the station and admits it
    fn join(&mut self, adversarial: bool) {
        let mut p = self.params();
        if p.addr > 40 {
            p.addr = self.rng.range(0, 40) as u8;
            p.hsa = p.hsa.max(p.addr + 1);
        }
        let nm = self.rng.range(1, 3) as usize;
        let mut ms: Vec<u8> = vec![];
        while ms.len() < nm {
            let a = match self.rng.below(4) {
                0 => (p.addr + 1) % 126,
                1 => p.addr.wrapping_sub(1).min(125),
                _ => self.rng.range(0, 125) as u8,
            };
            if a != p.addr && !ms.contains(&a) {
                ms.push(a);
            }
        }
        ms.sort();
        // predecessor of TS among the masters (cyclic)
        let pred = *ms.iter().rev().find(|a| **a < p.addr).unwrap_or(ms.last().unwrap());
        let mut peers = vec![];
        for (i, a) in ms.iter().enumerate() {
            let next = ms[(i + 1) % ms.len()];
            let polls = *a == pred || self.rng.chance(1, 5);
            peers.push(self.peer(*a, Some((next, polls))));
        }
        let mut targets = ms.clone();
        if self.rng.chance(1, 2) {
            let a = self.rng.range(0, 125) as u8;
            if a != p.addr && !ms.contains(&a) {
                targets.push(a);
                peers.push(self.peer(a, None));
            }
        }
        let apps = self.apps(&targets);
        let mut env = format!("{} on start:{} per:2:8", peers.join(" "), ms[0]);
        let mut budget = 500 + 120 * nm;
        if adversarial {
            while budget > 0 {
                let k = self.rng.range(5, 80) as usize;
                write!(env, " run:{}", k).unwrap();
                match self.rng.below(8) {
                    0 => write!(env, " kill:{}", self.rng.pick(&ms)).unwrap(),
                    1 => write!(env, " rev:{} start:{}", ms[0], ms[0]).unwrap(),
                    2 => write!(env, " off run:3 on").unwrap(),
                    3 => write!(env, " skip:{}", self.rng.range(8, 400)).unwrap(),
                    _ => {
                        let inj = self.injection(&p, &ms);
                        write!(env, " {}", inj).unwrap()
                    }
                }
                budget = budget.saturating_sub(k);
            }
            write!(env, " run:60").unwrap();
        } else {
            write!(env, " run:{}", budget).unwrap();
            if self.rng.chance(1, 3) {
                write!(env, " kill:{} run:{}", pred, Self::claim_polls(&p) * 2 + 100).unwrap();
            }
        }
        let h = self.header(&p);
        self.emit(format!("{}{} / ENV {}", h, apps, env));
    }

    /// hand-made token traffic around the station: acceptance rules, strangers, collisions
    fn token_play(&mut self) {
        let mut p = self.params();
        p.addr = self.rng.range(1, 30) as u8;
        p.hsa = p.hsa.max(p.addr + 1);
        let a = p.addr;
        let ps = self.rng.range(0, a as i64 - 1).max(0) as u8;
        let ns = (a + self.rng.range(1, 20) as u8).min(125);
        let stranger = if ps > 0 { ps - 1 } else { 120 };
        let mut env = String::from("on per:2:8");
        // three identical rotations ps -> ns -> ps so that the LAS becomes valid
        let pause = |e: &mut String, r: &mut Rng| write!(e, " run:{}", r.range(2, 6)).unwrap();
        let ring: Vec<(u8, u8)> = if ps == a || ps == ns { vec![(ns, ns)] } else { vec![(ns, ps), (ps, ns)] };
        for _ in 0..self.rng.range(2, 4) {
            for (da, sa) in &ring {
                write!(env, " injt:{}", tok(*da, *sa)).unwrap();
                pause(&mut env, &mut self.rng);
            }
        }
        // status request from PS, then token offers
        let src = *self.rng.pick(&[ps, ps, stranger, ns]);
        write!(env, " injt:{} run:{}", sreq(a, src), self.rng.range(6, 14)).unwrap();
        for _ in 0..self.rng.range(1, 6) {
            let from = *self.rng.pick(&[ps, ps, stranger, ns, a, 126, 200]);
            let to = *self.rng.pick(&[a, a, a, ns, stranger]);
            write!(env, " {}:{} run:{}", if self.rng.chance(1, 3) { "inj" } else { "injt" }, tok(to, from), self.rng.range(1, 30)).unwrap();
            if self.rng.chance(1, 4) {
                let inj = self.injection(&p, &[ps, ns, stranger]);
                write!(env, " {} run:{}", inj, self.rng.range(1, 10)).unwrap();
            }
        }
        write!(env, " run:{}", self.rng.range(20, 200)).unwrap();
        let apps = self.apps(&[ns, ps]);
        let h = self.header(&p);
        self.emit(format!("{}{} / ENV {}", h, apps, env));
    }

    /// long poll periods, PHY busy answers that are early / late / random
    fn timing(&mut self) {
        let p = self.params();
        let mode = self.rng.range(0, 4);
        let late = self.rng.range(1, 60);
        let (lo, hi) = *self.rng.pick(&[(1u64, 2u64), (1, 8), (8, 8), (8, 40), (20, 200), (1, 64)]);
        let peer_a = if p.addr + 1 < p.hsa { p.addr + 1 } else { 0 };
        let peer = if peer_a != p.addr { self.peer(peer_a, None) } else { String::new() };
        let apps = self.apps(&[peer_a]);
        let n = (Self::claim_polls(&p) * 8 / (lo as usize + hi as usize).max(2) * 2 + 300).min(1500);
        let h = self.header(&p);
        self.emit(format!("{}{} / ENV {} busy:{}:{} on per:{}:{} run:{}", h, apps, peer, mode, late, lo, hi, n));
    }

    /// (TS, NS, HSA) corner triples with a ready master placed at a chosen address
    fn gap_corner(&mut self) {
        let mut p = self.params();
        p.addr = *self.rng.pick(&[0u8, 1, 2, 7, 14, 15]);
        p.hsa = *self.rng.pick(&[p.addr + 1, p.addr + 2, 16, 16, 20, 126]);
        if p.hsa <= p.addr {
            p.hsa = p.addr + 1;
        }
        p.gap = *self.rng.pick(&[1u8, 1, 2]);
        let where_ = match self.rng.below(5) {
            0 => p.hsa - 1,
            1 => p.addr.wrapping_sub(1).min(125),
            2 => (p.addr + 1) % 126,
            3 => 0,
            _ => self.rng.range(0, p.hsa as i64 - 1) as u8,
        };
        let mut peers = String::new();
        if where_ != p.addr {
            let st = *self.rng.pick(&['r', 'i', 'r', 'i', 'n', 's', 'w', 'y', 'z']);
            let ms = self.rng.chance(1, 2);
            write!(peers, "p{}:{}:k:11:{}:{}:40:0", where_, st, ms as u8, p.addr).unwrap();
        }
        let apps = self.apps(&[where_]);
        let n = Self::claim_polls(&p) + (p.hsa as usize) * 8 * (p.gap as usize + 2) + 300;
        let h = self.header(&p);
        self.emit(format!("{}{} / ENV {} on per:6:8 run:{}", h, apps, peers, n.min(2500)));
    }

    /// the station in a stable ring with one environment master for many token visits; small HSA so
    /// that several GAP sweeps complete; responders inside the GAP that must not become successor; a
    /// second master inside the GAP that appears later (found by the GAP poll itself)
    fn stable_ring(&mut self) {
        let mut p = self.params();
        p.addr = self.rng.range(0, 6) as u8;
        p.hsa = (p.addr as i64 + self.rng.range(3, 9)).min(126) as u8;
        p.gap = *self.rng.pick(&[1u8, 1, 2, 3]);
        p.baud = *self.rng.pick(&[1usize, 4, 5, 6, 7]);
        p.slot = MIN_SLOT[p.baud];
        p.ttr = *self.rng.pick(&[5000u32, 20000, 60000]);
        // the other master: above TS below HSA, or below TS (wrap-around GAP)
        let m = if p.addr > 1 && self.rng.chance(1, 3) {
            self.rng.range(0, p.addr as i64 - 1) as u8
        } else {
            self.rng.range(p.addr as i64 + 2, p.hsa as i64 - 1).max(p.addr as i64 + 1) as u8
        };
        let mst = *self.rng.pick(&['r', 'i']);
        let mut env = format!("p{}:{}:k:11:1:{}:{}:0", m, mst, p.addr, self.rng.range(34, 60));
        // addresses strictly inside the GAP (TS, m)
        let mut inside: Vec<u8> = vec![];
        let mut a = (p.addr + 1) % p.hsa.max(1);
        while a != m && a != p.addr && inside.len() < 12 {
            inside.push(a);
            a = (a + 1) % p.hsa.max(1);
        }
        let mut late_master: Option<u8> = None;
        for a in inside.iter() {
            match self.rng.below(6) {
                0 => write!(env, " p{}:{}:k:11:0:{}:40:0", a, self.rng.pick(&['s', 'n', 'x', 'w', 'y', 'z', 'h', 'h']), a).unwrap(),
                1 if late_master.is_none() => {
                    late_master = Some(*a);
                    write!(env, " p{}:{}:k:11:1:{}:40:0 kill:{}", a, self.rng.pick(&['r', 'i']), m, a).unwrap();
                }
                _ => {}
            }
        }
        let apps = if self.rng.chance(1, 3) { self.apps(&[m]) } else { String::new() };
        write!(env, " on per:8:8 run:{} per:4:8 run:{}", Self::claim_polls(&p) + 40, self.rng.range(700, 1500)).unwrap();
        if self.rng.chance(1, 4) {
            write!(env, " cut:{}:{} run:{} rev:{} run:200", m, self.rng.range(1, 2), self.rng.range(300, 500), m).unwrap();
        }
        if let Some(q) = late_master {
            write!(env, " rev:{} run:{}", q, self.rng.range(600, 1200)).unwrap();
            if self.rng.chance(1, 2) {
                write!(env, " kill:{} run:{}", q, self.rng.range(300, 600)).unwrap();
            }
        } else {
            write!(env, " run:{}", self.rng.range(300, 900)).unwrap();
        }
        // the other masters die (sometimes while holding the token): the station re-claims with its GAP
        // cursor somewhere in the middle of a sweep or in its waiting phase
        if self.rng.chance(2, 3) {
            if let Some(q) = late_master {
                write!(env, " kill:{}", q).unwrap();
            }
            for _ in 0..3 {
                write!(env, " run:{} kill:{} run:{} rev:{}", self.rng.range(1, 25), m, Self::claim_polls(&p) + 120, m).unwrap();
            }
        }
        let h = self.header(&p);
        self.emit(format!("{}{} / ENV {}", h, apps, env));
    }

    /// short target rotation time and applications that always have something to send (SDN, no reply
    /// expected, never declining) next to applications that decline or whose requests time out: the
    /// hold time expires in the middle of a visit; a request of one application times out after
    /// another one has already declined in the same visit
    fn hold_expiry(&mut self) {
        let mut p = self.params();
        p.addr = self.rng.range(0, 9) as u8;
        p.hsa = (p.addr as i64 + self.rng.range(1, 4)).min(126) as u8;
        p.ttr = *self.rng.pick(&[256u32, 400, 800, 1500, 3000, 8000]);
        p.gap = *self.rng.pick(&[1u8, 10, 100]);
        let dead = if p.addr == 100 { 101 } else { 100u8 }; // nobody answers here: requests time out
        let napps = self.rng.range(1, 3) as usize;
        let mut apps = String::new();
        for i in 0..napps {
            let style = self.rng.below(4);
            let n = self.rng.range(1, 5) as usize;
            let mut ds: Vec<String> = vec![];
            for _ in 0..n {
                let plen = *self.rng.pick(&[0usize, 1, 4, 12]);
                let pdu = self.rng.bytes(plen);
                ds.push(match style {
                    0 => format!("N{},{},-,-", dead, hex(&pdu)),                       // always sends, no reply expected
                    1 => if self.rng.chance(1, 2) { "D".to_string() } else { format!("R{},{},-,-", dead, hex(&pdu)) }, // declines / times out
                    2 => format!("R{},{},-,-", dead, hex(&pdu)),                       // every request times out
                    _ => if self.rng.chance(1, 3) { "D".to_string() } else { format!("M{},{},-,-{}", dead, hex(&pdu), if self.rng.chance(1, 3) { ",l" } else { "" }) },
                });
            }
            let looping = style != 1 || self.rng.chance(1, 2) || i == 0;
            write!(apps, " / APP{} {}", if looping { "*" } else { "" }, ds.join(" ")).unwrap();
        }
        let env = format!("on per:8:8 run:{} per:2:8 run:{}", Self::claim_polls(&p) + 30, self.rng.range(500, 1200));
        let h = self.header(&p);
        self.emit(format!("{}{} / ENV {}", h, apps, env));
    }

    /// the PHY reports the transmission in progress for longer than the predicted 11 bit per byte; the
    /// successor answers a token late but inside the slot time, or not at all
    fn late_busy(&mut self) {
        let mut p = self.params();
        p.addr = self.rng.range(0, 12) as u8;
        p.hsa = (p.addr as i64 + self.rng.range(3, 8)).min(126) as u8;
        p.gap = *self.rng.pick(&[1u8, 10, 100]);
        let slot = p.slot as i64;
        let late = self.rng.range(slot * 4 / 10, slot * 9 / 10);
        let succ = p.addr + self.rng.range(1, (p.hsa - p.addr - 1) as i64) as u8;
        let role = self.rng.below(3); // 0: ready but never reacts to a token, 1/2: master answering late
        let delay = self.rng.range(34, (slot - 25).max(35));
        let env = format!(
            "p{}:{}:k:11:{}:{}:{}:0 busy:2:{} on per:8:8 run:{} per:2:8 run:{}",
            succ,
            self.rng.pick(&['r', 'i']),
            (role > 0) as u8,
            p.addr,
            delay,
            late,
            Self::claim_polls(&p) + 40,
            self.rng.range(400, 900)
        );
        let apps = if self.rng.chance(1, 3) { self.apps(&[succ]) } else { String::new() };
        let h = self.header(&p);
        self.emit(format!("{}{} / ENV {}", h, apps, env));
    }

    /// rings of 3..4 known stations (the station plus 2..3 environment masters); the station's
    /// successor vanishes while it does not hold the token (or while it does), is removed after three
    /// unanswered passes and - sometimes - comes back and is found again by the GAP poll
    fn ring3(&mut self) {
        let mut p = self.params();
        p.addr = self.rng.range(0, 20) as u8;
        p.hsa = *self.rng.pick(&[40u8, 60, 126]);
        p.gap = *self.rng.pick(&[1u8, 2, 5]);
        let nm = self.rng.range(2, 3) as usize;
        let mut ms: Vec<u8> = vec![];
        while ms.len() < nm {
            let a = self.rng.range(0, p.hsa as i64 - 1) as u8;
            if a != p.addr && !ms.contains(&a) {
                ms.push(a);
            }
        }
        ms.sort();
        let pred = *ms.iter().rev().find(|a| **a < p.addr).unwrap_or(ms.last().unwrap());
        let succ = *ms.iter().find(|a| **a > p.addr).unwrap_or(&ms[0]);
        let mut peers = vec![];
        for (i, a) in ms.iter().enumerate() {
            let next = ms[(i + 1) % ms.len()];
            peers.push(format!("p{}:i:k:11:1:{}:{}:{}", a, next, self.rng.range(34, 70), (*a == pred) as u8));
        }
        let apps = if self.rng.chance(1, 2) { self.apps(&ms.clone()) } else { String::new() };
        let mut env = format!("{} on start:{} per:3:8 run:{}", peers.join(" "), ms[0], self.rng.range(500, 900));
        if self.rng.chance(1, 2) {
            // the successor dies in the middle of its token telegram
            write!(env, " cut:{}:{} run:{}", succ, self.rng.range(1, 2), self.rng.range(250, 500)).unwrap();
        } else {
            write!(env, " kill:{} run:{}", succ, self.rng.range(150, 400)).unwrap();
        }
        if self.rng.chance(1, 2) {
            write!(env, " rev:{} run:{}", succ, self.rng.range(300, 700)).unwrap();
        }
        if self.rng.chance(1, 3) {
            write!(env, " kill:{} run:{}", pred, Self::claim_polls(&p) + 200).unwrap();
        }
        let h = self.header(&p);
        self.emit(format!("{}{} / ENV {}", h, apps, env));
    }
}

pub fn gen(seed: u64, thorough: bool, out: &mut dyn FnMut(String)) {
    let mut g = Gen { rng: Rng::new(seed ^ 0xFD1), out, n: 0 };
    let scale = if thorough { 10 } else { 2 };
    for _ in 0..500 * scale {
        g.solo(false);
    }
    for _ in 0..700 * scale {
        g.solo(true);
    }
    for _ in 0..500 * scale {
        g.join(false);
    }
    for _ in 0..700 * scale {
        g.join(true);
    }
    for _ in 0..900 * scale {
        g.token_play();
    }
    for _ in 0..300 * scale {
        g.timing();
    }
    for _ in 0..400 * scale {
        g.gap_corner();
    }
    for _ in 0..350 * scale {
        g.stable_ring();
    }
    for _ in 0..350 * scale {
        g.ring3();
    }
    for _ in 0..300 * scale {
        g.hold_expiry();
    }
    for _ in 0..250 * scale {
        g.late_busy();
    }
}
