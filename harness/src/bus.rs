//! BUS domain (bus-level halves of C01 / C02 / C06 / C13): N = 2..5 REAL `FdlActiveStation`s on one
//! shared half-duplex medium, under a join plan, per-station jittered poll schedules, application
//! loads and a fault plan.  The medium is this file's `Bus` (not `SimulatorBus`, which panics on
//! the collisions and timing errors the monitors are supposed to *report*), with the byte timing
//! of `SimulatorBus`: a transmission (sender, start, bytes) makes byte k (0-based) available to
//! every other station at the first instant t with  (t - start) * rate >= 11 (k+1) * 10^6,
//! i.e. floor(time_to_bits(t - start) / 11) bytes at time t; the sender is "transmitting" until
//! the last byte is complete and never hears itself.
//!
//! Case line (sections separated by " | "):
//!   `<label> <baud_idx> <slot_bits> <hsa> <gap> <ttr_bits> <dur_us> <smp_us> <seed> <cg>`
//!   ` | <addr>,<on_us>,<phase_us>,<pmin_us>,<pmax_us>,<app>;...`      stations (2..5)
//!   ` | <addr>,<delay_us>,<replylen>` or `-`                            passive responder
//!   ` | <event>;...` or `-`                                             fault / population plan
//!   app    `n` (the unit application) or `<kinds>:<num>/<den>:<da>:<len>:<hp>`
//!          kinds = letters of d (SDN to da), q (FDL status request to da), r (SRD to the responder);
//!          ready with probability num/den per call; hp=1: declines when asked for high priority only
//!   cg     collision garbage: 0 = bytes completing while another transmission is on the wire are
//!          lost, 1 = delivered xor 0xA5; +2 = the PHYs never report an ongoing transmission (poll_transmission
//!          is always false: the station must rely on its own predicted end of transmission)
//!   event  `K,<t>,<addr>` stop a station (set_offline; a transmission in progress is cut),
//!          `R,<t>,<addr>` restart (PHY buffer flushed, set_online), `D,<t>` drop / `F,<t>,<i>,<mask>`
//!          flip byte i / `T,<t>,<n>` truncate to n bytes: the first transmission starting at or after t,
//!          `C,<t0>,<t1>,<mask>` every byte completing in [t0,t1) is delivered xor mask
//! Result: `;`-separated records in time order
//!   `T<addr> <start_us> <hex>`     transmission as handed to the PHY (time of that poll); `t...` when a
//!                                  fault altered what the others received (hex = what was on the wire)
//!   `E<addr> <t> <1|0>`            station went online (time of its first poll) / offline
//!   `X<t>`                         a disturbance of the fault plan took effect at t
//!   `S<addr> <t> <c><r><l> <ns> <ps> <las> <State>`   sample: connectivity online?, is_in_ring, LAS state
//!                                  letter, NS, PS, list of active stations, FDL state name
//!   `!PANIC <loc>`                 a poll panicked (run ends)
use crate::util::*;
use profirust::fdl::{self, FdlActiveStation, FdlApplication};
use profirust::phy::ProfibusPhy;
use profirust::time::Instant;
use std::cell::RefCell;
use std::collections::VecDeque;
use std::fmt::Write as _;
use std::rc::Rc;

const BAUDS: [profirust::Baudrate; 11] = [
    profirust::Baudrate::B9600,
    profirust::Baudrate::B19200,
    profirust::Baudrate::B31250,
    profirust::Baudrate::B45450,
    profirust::Baudrate::B93750,
    profirust::Baudrate::B187500,
    profirust::Baudrate::B500000,
    profirust::Baudrate::B1500000,
    profirust::Baudrate::B3000000,
    profirust::Baudrate::B6000000,
    profirust::Baudrate::B12000000,
];
const MIN_SLOT: [u64; 11] = [100, 100, 100, 100, 100, 100, 200, 300, 400, 600, 1000];

// ------------------------------------------------------------------------------------ the medium

#[derive(Clone, Copy)]
enum Fault {
    Drop(i64),
    Flip(i64, usize, u8),
    Trunc(i64, usize),
    Window(i64, i64, u8),
}

struct InFlight {
    sender: usize,
    start: i64,
    end: i64, // completion of the last byte
}

struct Bus {
    rate: i64,
    /// per PHY: bytes on their way (completion time, value), sorted by completion time
    rxq: Vec<VecDeque<(i64, u8)>>,
    /// per PHY: receive buffer
    rxbuf: Vec<Vec<u8>>,
    /// per PHY: end of its own current/last transmission
    tx_end: Vec<i64>,
    /// per PHY: end of its own transmission as the stack predicts it (floor of the bit time)
    tx_end_floor: Vec<i64>,
    flights: Vec<InFlight>,
    faults: Vec<(Fault, bool)>,
    collision_garbage: u8,
    lazy_phy: bool,
    addr: Vec<u8>,
    out: String,
    n_tx: usize,
}

impl Bus {
    /// completion time of the byte that ends `nbytes` bytes after `start`
    fn complete(&self, start: i64, nbytes: usize) -> i64 {
        let num = 11i64 * nbytes as i64 * 1_000_000;
        start + (num + self.rate - 1) / self.rate
    }

    fn settle(&mut self, i: usize, now: i64) {
        while let Some(&(t, b)) = self.rxq[i].front() {
            if t <= now {
                self.rxbuf[i].push(b);
                self.rxq[i].pop_front();
            } else {
                break;
            }
        }
    }

    fn insert_sorted(q: &mut VecDeque<(i64, u8)>, e: (i64, u8)) {
        let mut pos = q.len();
        while pos > 0 && q[pos - 1].0 > e.0 {
            pos -= 1;
        }
        q.insert(pos, e);
    }

    fn transmit(&mut self, i: usize, now: i64, data: &[u8]) {
        if data.is_empty() {
            return;
        }
        self.n_tx += 1;
        let n = self.rxq.len();
        let end = self.complete(now, data.len());
        // what the others receive
        let mut wire: Vec<Option<u8>> = data.iter().map(|b| Some(*b)).collect();
        let mut faulted = false;
        for (f, used) in self.faults.iter_mut() {
            match *f {
                Fault::Drop(t) if !*used && now >= t => {
                    *used = true;
                    faulted = true;
                    for w in wire.iter_mut() {
                        *w = None;
                    }
                }
                Fault::Flip(t, idx, mask) if !*used && now >= t => {
                    *used = true;
                    faulted = true;
                    let k = idx % wire.len();
                    if let Some(b) = wire[k] {
                        wire[k] = Some(b ^ mask);
                    }
                }
                Fault::Trunc(t, keep) if !*used && now >= t => {
                    *used = true;
                    faulted = true;
                    for (k, w) in wire.iter_mut().enumerate() {
                        if k >= keep % data.len() {
                            *w = None;
                        }
                    }
                }
                _ => {}
            }
        }
        let times: Vec<i64> = (0..data.len()).map(|k| self.complete(now, k + 1)).collect();
        for (f, _) in self.faults.iter() {
            if let Fault::Window(t0, t1, mask) = *f {
                for k in 0..wire.len() {
                    if times[k] >= t0 && times[k] < t1 {
                        if let Some(b) = wire[k] {
                            wire[k] = Some(b ^ mask);
                            faulted = true;
                        }
                    }
                }
            }
        }
        // collisions: bytes of other transmissions still on the wire, and our bytes under them
        self.flights.retain(|f| f.end > now);
        let mut collided = false;
        let overl: Vec<(usize, i64, i64)> =
            self.flights.iter().filter(|f| f.sender != i).map(|f| (f.sender, f.start, f.end)).collect();
        for &(_, _, oend) in overl.iter() {
            collided = true;
            for k in 0..wire.len() {
                // our byte k occupies (times[k-1], times[k]]; garbage while the other one is still sending
                let begin = if k == 0 { now } else { times[k - 1] };
                if begin < oend {
                    wire[k] = match (self.collision_garbage, wire[k]) {
                        (0, _) => None,
                        (_, Some(b)) => Some(b ^ 0xA5),
                        (_, None) => None,
                    };
                }
            }
        }
        if collided {
            // bytes of the others that complete after our start are garbage as well
            for r in 0..n {
                let g = self.collision_garbage;
                if g == 0 {
                    self.rxq[r].retain(|&(t, _)| t <= now);
                } else {
                    for e in self.rxq[r].iter_mut() {
                        if e.0 > now {
                            e.1 ^= 0xA5;
                        }
                    }
                }
            }
        }
        // own receiver is deaf while transmitting
        self.settle(i, now);
        self.rxq[i].retain(|&(t, _)| t >= end);
        self.tx_end[i] = end;
        self.tx_end_floor[i] = now + 11i64 * data.len() as i64 * 1_000_000 / self.rate;
        for r in 0..n {
            if r == i {
                continue;
            }
            for k in 0..wire.len() {
                if let Some(b) = wire[k] {
                    if times[k] < self.tx_end[r] {
                        continue; // r is transmitting itself
                    }
                    Self::insert_sorted(&mut self.rxq[r], (times[k], b));
                }
            }
        }
        self.flights.push(InFlight { sender: i, start: now, end });
        if faulted {
            let _ = write!(self.out, "X{};", now);
        }
        let _ = write!(self.out, "{}{} {} {};", if faulted { 't' } else { 'T' }, self.addr[i], now, hex(data));
    }

    /// a station is stopped at `now`: cut its transmission if one is in progress
    fn cut(&mut self, i: usize, now: i64) -> bool {
        let mut was = false;
        if self.tx_end[i] > now {
            was = true;
            self.tx_end[i] = now;
            for r in 0..self.rxq.len() {
                // only this sender's bytes can be in flight after `now` unless there is a collision
                if r != i {
                    self.rxq[r].retain(|&(t, _)| t <= now);
                }
            }
            for f in self.flights.iter_mut() {
                if f.sender == i {
                    f.end = now;
                }
            }
        }
        was
    }
}

struct HPhy {
    bus: Rc<RefCell<Bus>>,
    idx: usize,
}

impl ProfibusPhy for HPhy {
    fn poll_transmission(&mut self, now: Instant) -> bool {
        let bus = self.bus.borrow();
        if bus.lazy_phy {
            // a PHY that cannot tell when its transmit FIFO has drained: the station has to rely on
            // its own prediction of the end of the transmission
            return false;
        }
        now.total_micros() < bus.tx_end[self.idx]
    }

    fn transmit_data<F, R>(&mut self, now: Instant, f: F) -> R
    where
        F: FnOnce(&mut [u8]) -> (usize, R),
    {
        let mut buffer = vec![0xA5u8; 256];
        let (length, res) = f(&mut buffer);
        buffer.truncate(length);
        self.bus.borrow_mut().transmit(self.idx, now.total_micros(), &buffer);
        res
    }

    fn receive_data<F, R>(&mut self, now: Instant, f: F) -> R
    where
        F: FnOnce(&[u8]) -> (usize, R),
    {
        let buf = {
            let mut bus = self.bus.borrow_mut();
            // like SimulatorPhy: receiving while the own transmission is on the wire is an error
            if now.total_micros() < bus.tx_end_floor[self.idx] {
                drop(bus);
                panic!("attempted to receive while still transmitting");
            }
            bus.settle(self.idx, now.total_micros());
            std::mem::take(&mut bus.rxbuf[self.idx])
        };
        let (drop, res) = f(&buf);
        assert!(drop <= buf.len(), "dropped more than pending");
        let mut bus = self.bus.borrow_mut();
        bus.rxbuf[self.idx] = buf[drop..].to_vec();
        res
    }
}

// ------------------------------------------------------------------------------------ applications

#[derive(Clone)]
struct AppSpec {
    kinds: Vec<u8>,
    num: u64,
    den: u64,
    da: u8,
    len: usize,
    hp: bool,
}

struct ScriptApp {
    spec: AppSpec,
    rng: Rng,
    ts: u8,
    resp: u8,
}

impl FdlApplication for ScriptApp {
    fn transmit_telegram(
        &mut self,
        _now: Instant,
        _fdl: &FdlActiveStation,
        tx: fdl::TelegramTx,
        high_prio_only: fdl::HighPrioOnly,
    ) -> Option<fdl::TelegramTxResponse> {
        if self.spec.hp && high_prio_only == fdl::HighPrioOnly::Yes {
            return None;
        }
        if self.rng.below(self.spec.den) >= self.spec.num {
            return None;
        }
        let kind = *self.rng.pick(&self.spec.kinds);
        let len = self.spec.len;
        let fill = self.rng.byte();
        match kind {
            b'd' => Some(tx.send_data_telegram(
                fdl::DataTelegramHeader {
                    da: self.spec.da,
                    sa: self.ts,
                    dsap: None,
                    ssap: None,
                    fc: fdl::FunctionCode::Request { fcb: fdl::FrameCountBit::Inactive, req: fdl::RequestType::SdnLow },
                },
                len,
                |p| p.iter_mut().for_each(|b| *b = fill),
            )),
            b'q' => Some(tx.send_fdl_status_request(self.spec.da, self.ts)),
            _ => Some(tx.send_data_telegram(
                fdl::DataTelegramHeader {
                    da: self.resp,
                    sa: self.ts,
                    dsap: None,
                    ssap: None,
                    fc: fdl::FunctionCode::new_srd_low(fdl::FrameCountBit::First),
                },
                len,
                |p| p.iter_mut().for_each(|b| *b = fill),
            )),
        }
    }
    fn receive_reply(&mut self, _now: Instant, _fdl: &FdlActiveStation, _addr: u8, _t: fdl::Telegram) {}
    fn handle_timeout(&mut self, _now: Instant, _fdl: &FdlActiveStation, _addr: u8) {}
}

enum App {
    Unit,
    Script(ScriptApp),
}

// ------------------------------------------------------------------------------------ one run

struct Station {
    addr: u8,
    fdl: FdlActiveStation,
    phy: HPhy,
    app: App,
    rng: Rng,
    next_poll: i64,
    pmin: i64,
    pmax: i64,
    on_time: i64,
    want_online: bool,
    online: bool,
}

fn state_name(f: &FdlActiveStation) -> String {
    let fp = profirust::verif_hooks::fdl::fingerprint(f);
    match fp.find(",state:") {
        Some(i) => fp[i + 7..].chars().take_while(|c| c.is_ascii_alphanumeric()).collect(),
        None => "?".to_string(),
    }
}

fn sample(out: &mut String, t: i64, s: &Station) {
    let r = s.fdl.inspect_token_ring();
    let las: Vec<String> = r.iter_active_stations().map(|a| a.to_string()).collect();
    let l = match profirust::verif_hooks::fdl::las_state_name(&s.fdl) {
        "Uninitialized" => 'U',
        "Discovery" => 'D',
        "Verification" => 'V',
        "Valid" => 'L',
        _ => '?',
    };
    let _ = write!(
        out,
        "S{} {} {}{}{} {} {} {} {};",
        s.addr,
        t,
        if s.fdl.connectivity_state().is_online() { 1 } else { 0 },
        if s.fdl.is_in_ring() { 1 } else { 0 },
        l,
        r.next_station(),
        r.previous_station(),
        if las.is_empty() { "-".to_string() } else { las.join(",") },
        state_name(&s.fdl)
    );
}

enum PlanEv {
    Kill(i64, u8),
    Restart(i64, u8),
}

pub fn run_case(line: &str) -> String {
    let secs: Vec<&str> = line.split(" | ").collect();
    if secs.len() != 4 {
        return "!BADCASE".to_string();
    }
    let h: Vec<&str> = secs[0].split_whitespace().collect();
    let baud_idx: usize = h[1].parse().unwrap();
    let slot_bits: u16 = h[2].parse().unwrap();
    let hsa: u8 = h[3].parse().unwrap();
    let gap: u8 = h[4].parse().unwrap();
    let ttr: u32 = h[5].parse().unwrap();
    let dur: i64 = h[6].parse().unwrap();
    let smp: i64 = h[7].parse().unwrap();
    let seed: u64 = h[8].parse().unwrap();
    let cg: u8 = h[9].parse().unwrap();
    let baud = BAUDS[baud_idx];
    let rate = baud.to_rate() as i64;

    // responder
    let resp: Option<(u8, i64, usize)> = if secs[2].trim() == "-" {
        None
    } else {
        let t: Vec<&str> = secs[2].trim().split(',').collect();
        Some((t[0].parse().unwrap(), t[1].parse().unwrap(), t[2].parse().unwrap()))
    };

    let mut faults: Vec<(Fault, bool)> = Vec::new();
    let mut plan: Vec<PlanEv> = Vec::new();
    let mut window_marks: Vec<i64> = Vec::new();
    if secs[3].trim() != "-" {
        for e in secs[3].trim().split(';') {
            let t: Vec<&str> = e.split(',').collect();
            let n = |i: usize| -> i64 { t[i].parse().unwrap() };
            match t[0] {
                "K" => plan.push(PlanEv::Kill(n(1), n(2) as u8)),
                "R" => plan.push(PlanEv::Restart(n(1), n(2) as u8)),
                "D" => faults.push((Fault::Drop(n(1)), false)),
                "F" => faults.push((Fault::Flip(n(1), n(2) as usize, n(3) as u8), false)),
                "T" => faults.push((Fault::Trunc(n(1), n(2) as usize), false)),
                "C" => {
                    faults.push((Fault::Window(n(1), n(2), n(3) as u8), false));
                    window_marks.push(n(2));
                }
                _ => return "!BADCASE".to_string(),
            }
        }
    }

    let specs: Vec<&str> = secs[1].trim().split(';').collect();
    let nst = specs.len();
    let nphy = nst + 1; // last PHY index = responder
    let mut addrs: Vec<u8> = Vec::new();
    for s in specs.iter() {
        addrs.push(s.split(',').next().unwrap().parse().unwrap());
    }
    addrs.push(resp.map(|r| r.0).unwrap_or(127));
    let bus = Rc::new(RefCell::new(Bus {
        rate,
        rxq: (0..nphy).map(|_| VecDeque::new()).collect(),
        rxbuf: (0..nphy).map(|_| Vec::new()).collect(),
        tx_end: vec![i64::MIN; nphy],
        tx_end_floor: vec![i64::MIN; nphy],
        flights: Vec::new(),
        faults,
        collision_garbage: cg & 1,
        lazy_phy: cg & 2 != 0,
        addr: addrs.clone(),
        out: String::new(),
        n_tx: 0,
    }));

    let mut stations: Vec<Station> = Vec::new();
    for (i, s) in specs.iter().enumerate() {
        let t: Vec<&str> = s.split(',').collect();
        let addr: u8 = t[0].parse().unwrap();
        let mut pb = fdl::ParametersBuilder::new(addr, baud);
        pb.slot_bits(slot_bits).highest_station_address(hsa).gap_wait_rotations(gap).token_rotation_bits(ttr);
        let param = pb.build();
        let app = if t[5] == "n" {
            App::Unit
        } else {
            let a: Vec<&str> = t[5].split(':').collect();
            let frac: Vec<&str> = a[1].split('/').collect();
            App::Script(ScriptApp {
                spec: AppSpec {
                    kinds: a[0].bytes().collect(),
                    num: frac[0].parse().unwrap(),
                    den: frac[1].parse().unwrap(),
                    da: a[2].parse().unwrap(),
                    len: a[3].parse().unwrap(),
                    hp: a[4] == "1",
                },
                rng: Rng::new(seed ^ (0x1000 + addr as u64) * 0x9E37),
                ts: addr,
                resp: resp.map(|r| r.0).unwrap_or(126),
            })
        };
        let on_time: i64 = t[1].parse().unwrap();
        let phase: i64 = t[2].parse().unwrap();
        stations.push(Station {
            addr,
            fdl: FdlActiveStation::new(param),
            phy: HPhy { bus: bus.clone(), idx: i },
            app,
            rng: Rng::new(seed ^ (0x77 + addr as u64) * 0x1F123BB5),
            next_poll: phase,
            pmin: t[3].parse().unwrap(),
            pmax: t[4].parse().unwrap(),
            on_time,
            want_online: true,
            online: false,
        });
    }

    // responder: (reply start time, bytes)
    let mut resp_due: Option<(i64, Vec<u8>)> = None;
    let mut next_sample = 0i64;
    let mut panic_loc: Option<String> = None;
    let mut seen_tx = 0usize;
    window_marks.sort();

    loop {
        // next event: the earliest station poll, responder transmission, plan event, sample
        let mut t_next = i64::MAX;
        let mut who = usize::MAX;
        for (i, s) in stations.iter().enumerate() {
            if s.next_poll < t_next {
                t_next = s.next_poll;
                who = i;
            }
        }
        let t_resp = resp_due.as_ref().map(|r| r.0).unwrap_or(i64::MAX);
        let t_plan = plan
            .iter()
            .map(|p| match p {
                PlanEv::Kill(t, _) | PlanEv::Restart(t, _) => *t,
            })
            .min()
            .unwrap_or(i64::MAX);
        let t_min = t_next.min(t_resp).min(t_plan).min(next_sample);
        if t_min > dur {
            break;
        }
        while let Some(&w) = window_marks.first() {
            if w <= t_min {
                let _ = write!(bus.borrow_mut().out, "X{};", w);
                window_marks.remove(0);
            } else {
                break;
            }
        }
        if next_sample == t_min {
            let mut o = String::new();
            for s in stations.iter() {
                sample(&mut o, t_min, s);
            }
            bus.borrow_mut().out.push_str(&o);
            next_sample += smp;
            continue;
        }
        if t_plan == t_min {
            let k = plan
                .iter()
                .position(|p| match p {
                    PlanEv::Kill(t, _) | PlanEv::Restart(t, _) => *t == t_min,
                })
                .unwrap();
            match plan.remove(k) {
                PlanEv::Kill(t, a) => {
                    if let Some(i) = stations.iter().position(|s| s.addr == a) {
                        let s = &mut stations[i];
                        s.want_online = false;
                        if s.online {
                            s.online = false;
                            let r = guarded(|| s.fdl.set_offline());
                            if let Err(loc) = r {
                                panic_loc = Some(loc);
                                break;
                            }
                            let cut = bus.borrow_mut().cut(i, t);
                            let _ = write!(bus.borrow_mut().out, "X{};E{} {} 0;{}", t, a, t, if cut { format!("U{} {};", a, t) } else { String::new() });
                        }
                    }
                }
                PlanEv::Restart(t, a) => {
                    if let Some(i) = stations.iter().position(|s| s.addr == a) {
                        let s = &mut stations[i];
                        s.want_online = true;
                        s.on_time = t;
                        let _ = write!(bus.borrow_mut().out, "X{};", t);
                    }
                }
            }
            continue;
        }
        if t_resp == t_min {
            let (t, bytes) = resp_due.take().unwrap();
            bus.borrow_mut().transmit(nst, t, &bytes);
            seen_tx = bus.borrow().n_tx;
            continue;
        }
        // a station poll
        let now = t_next;
        let s = &mut stations[who];
        let period = s.pmin + s.rng.below((s.pmax - s.pmin + 1) as u64) as i64;
        s.next_poll = now + period.max(1);
        if s.want_online && !s.online && now >= s.on_time {
            // stale PHY buffers at set_online are outside the properties' class: flush
            {
                let mut b = bus.borrow_mut();
                b.settle(who, now);
                b.rxbuf[who].clear();
            }
            s.fdl.set_online();
            s.online = true;
            let _ = write!(bus.borrow_mut().out, "E{} {} 1;", s.addr, now);
        }
        if !s.online {
            continue;
        }
        let inst = Instant::from_micros(now);
        let r = guarded(|| match &mut s.app {
            App::Unit => s.fdl.poll(inst, &mut s.phy, &mut ()),
            App::Script(a) => s.fdl.poll(inst, &mut s.phy, a),
        });
        if let Err(loc) = r {
            panic_loc = Some(loc);
            break;
        }
        // did this poll put a request for the responder on the wire?
        let n_tx = bus.borrow().n_tx;
        if n_tx != seen_tx {
            seen_tx = n_tx;
            if let Some((ra, delay, rlen)) = resp {
                // the responder hears what the medium delivers to it
                let b = bus.borrow();
                let wire: Vec<u8> = b.rxbuf[nst].iter().copied().chain(b.rxq[nst].iter().map(|e| e.1)).collect();
                let done = b.rxq[nst].back().map(|e| e.0).unwrap_or(now);
                drop(b);
                if let Some(Ok((fdl::Telegram::Data(t), len))) = fdl::Telegram::deserialize(&wire) {
                    if len == wire.len() && t.h.da == ra {
                        if let fdl::FunctionCode::Request { req, .. } = t.h.fc {
                            if req.expects_reply() {
                                let mut buf = vec![0u8; 256];
                                let n = if rlen == 0 {
                                    fdl::TelegramTx::new(&mut buf).send_short_confirmation().bytes_sent()
                                } else {
                                    fdl::TelegramTx::new(&mut buf)
                                        .send_data_telegram(
                                            fdl::DataTelegramHeader {
                                                da: t.h.sa,
                                                sa: ra,
                                                dsap: None,
                                                ssap: None,
                                                fc: fdl::FunctionCode::Response {
                                                    state: fdl::ResponseState::Slave,
                                                    status: fdl::ResponseStatus::DataLow,
                                                },
                                            },
                                            rlen,
                                            |p| p.iter_mut().for_each(|b| *b = 0x5a),
                                        )
                                        .bytes_sent()
                                };
                                buf.truncate(n);
                                resp_due = Some((done + delay, buf));
                            }
                        }
                    }
                }
                // the responder consumes everything it has been sent
                let mut b = bus.borrow_mut();
                b.rxbuf[nst].clear();
                b.rxq[nst].clear();
            }
        }
    }
    let mut out = std::mem::take(&mut bus.borrow_mut().out);
    if let Some(loc) = panic_loc {
        let _ = write!(out, "!PANIC {};", loc);
    }
    if out.ends_with(';') {
        out.pop();
    }
    if out.is_empty() {
        out.push('-');
    }
    out
}

// ------------------------------------------------------------------------------------ generation

#[derive(Clone, Copy)]
struct Cfg {
    baud_idx: usize,
    slot: u64,
    hsa: u64,
    gap: u64,
    ttr: u64,
}

fn bits_us(baud_idx: usize, bits: u64) -> i64 {
    (bits * 1_000_000 / BAUDS[baud_idx].to_rate()) as i64
}

/// DESIGN 5.4 in bit times (traffic = additional bits per rotation caused by applications)
fn t_conv_bits(c: &Cfg, n: u64, traffic: u64) -> u64 {
    let t_rot = n * (3 * c.slot + 400) + traffic;
    (c.hsa + 3 * n + 6) * (c.gap + 2) * t_rot + 2 * (6 + 2 * (c.hsa - 1)) * c.slot
}

fn pick_cfg(rng: &mut Rng, thorough: bool) -> Cfg {
    // keep the convergence bound (and with it the simulated time) inside the tier's budget
    let cap = if thorough { 4_000_000 } else { 450_000 };
    loop {
        let c = pick_cfg0(rng, thorough);
        if t_conv_bits(&c, 4, 0) <= cap {
            return c;
        }
    }
}

fn pick_cfg0(rng: &mut Rng, thorough: bool) -> Cfg {
    let baud_idx = match rng.below(10) {
        0 => 0,
        1 => 1,
        2 => 5,
        3 | 4 => 6,
        5 | 6 => 7,
        7 => 8,
        8 => 10,
        _ => rng.below(11) as usize,
    };
    let ms = MIN_SLOT[baud_idx];
    let slot = match rng.below(4) {
        0 => ms,
        1 => ms + rng.below(ms),
        2 => ms * 3,
        _ => ms + 1 + rng.below(60),
    };
    let hsa = match rng.below(8) {
        0 => 3 + rng.below(4),
        1..=4 => 6 + rng.below(12),
        5 | 6 => 16 + rng.below(16),
        _ => {
            if thorough {
                *rng.pick(&[64u64, 126, 100])
            } else {
                32 + rng.below(8)
            }
        }
    };
    let gap = match rng.below(6) {
        0..=2 => 1,
        3 => 2,
        4 => 3,
        _ => {
            if thorough {
                10
            } else {
                4
            }
        }
    };
    let ttr = hsa * 5000;
    Cfg { baud_idx, slot, hsa, gap, ttr }
}

fn pick_addrs(rng: &mut Rng, hsa: u64, n: usize) -> Vec<u8> {
    let n = n.min(hsa as usize);
    let mut v: Vec<u8> = Vec::new();
    match rng.below(8) {
        0 => v.push(0),
        1 => v.push((hsa - 1) as u8),
        2 => {
            v.push(0);
            v.push((hsa - 1) as u8)
        }
        3 => {
            let a = rng.below(hsa - 1) as u8;
            v.push(a);
            v.push(a + 1);
        }
        4 => {
            // TS-1 of a station at HSA-1
            if hsa >= 2 {
                v.push((hsa - 2) as u8);
                v.push((hsa - 1) as u8);
            }
        }
        _ => {}
    }
    v.truncate(n);
    while v.len() < n {
        let a = rng.below(hsa) as u8;
        if !v.contains(&a) {
            v.push(a);
        }
    }
    v
}

/// poll period range (pmin, pmax) in us for a station.  `class` 0 = inside the property's class
/// (<= Tslot/4) AND with the hand-over requirement 2 P + 44 bit + 4 us < Tslot (two receiver polls since
/// the repair of F20; implied by P <= Tslot/4 for every builder-valid Tslot >= 100 bit, so class 0 and 2
/// coincide there - before the repair the requirement was 3 P + ... and class 0 avoided the known class),
/// 2 = anywhere inside the property's class, 1 = outside it
fn pick_period(rng: &mut Rng, c: &Cfg, class: u8) -> (i64, i64) {
    let tslot = bits_us(c.baud_idx, c.slot);
    let q4 = (tslot / 4).max(1);
    let rate = BAUDS[c.baud_idx].to_rate() as i64;
    // largest P with slot*10^6 > 2 P rate + 44*10^6 + 4 rate
    let safe = ((c.slot as i64 * 1_000_000 - 44_000_000 - 4 * rate - 1) / (2 * rate)).max(1);
    let q = if class == 0 { q4.min(safe) } else { q4 };
    let pmax = if class == 1 {
        q4 + 1 + rng.below((tslot - q4).max(1) as u64) as i64
    } else {
        match rng.below(6) {
            0 | 1 => q,
            2 => (q * 3 / 4).max(1),
            3 => (q / 2).max(1),
            4 => (q / 5).max(1),
            _ => (q / 10).max(1),
        }
    };
    let pmin = match rng.below(4) {
        0 => pmax,
        1 => (pmax / 2).max(1),
        2 => (pmax * 9 / 10).max(1),
        _ => 1.max(pmax / 8),
    };
    (pmin, pmax)
}

struct Scn {
    label: String,
    c: Cfg,
    dur_bits: u64,
    stations: Vec<String>,
    resp: String,
    events: Vec<String>,
    seed: u64,
    cg: u8,
}

fn emit(s: &Scn, out: &mut dyn FnMut(String)) {
    let dur = bits_us(s.c.baud_idx, s.dur_bits);
    let smp = (dur / 40).max(1);
    out(format!(
        "{} {} {} {} {} {} {} {} {} {} | {} | {} | {}",
        s.label,
        s.c.baud_idx,
        s.c.slot,
        s.c.hsa,
        s.c.gap,
        s.c.ttr,
        dur,
        smp,
        s.seed,
        s.cg,
        s.stations.join(";"),
        s.resp,
        if s.events.is_empty() { "-".to_string() } else { s.events.join(";") }
    ));
}

fn station_line(addr: u8, on: i64, phase: i64, p: (i64, i64), app: &str) -> String {
    format!("{},{},{},{},{},{}", addr, on, phase, p.0, p.1, app)
}

fn pick_app(rng: &mut Rng, addrs: &[u8], me: u8, has_resp: bool, c: &Cfg) -> (String, u64) {
    // returns the spec and the maximal request length in bytes
    let mut kinds = String::new();
    for k in ["d", "q", "r"] {
        if (k != "r" || has_resp) && rng.chance(1, 2) {
            kinds.push_str(k);
        }
    }
    if kinds.is_empty() {
        kinds.push('d');
    }
    let (num, den) = match rng.below(4) {
        0 => (1, 1),
        1 => (1, 2),
        2 => (3, 4),
        _ => (1, 8),
    };
    let da = match rng.below(4) {
        0 => rng.below(c.hsa) as u8,
        1 => 127,
        _ => {
            let o: Vec<u8> = addrs.iter().copied().filter(|a| *a != me).collect();
            if o.is_empty() {
                127
            } else {
                *rng.pick(&o)
            }
        }
    };
    let len = *rng.pick(&[0usize, 1, 8, 32, 60]);
    (format!("{}:{}/{}:{}:{}:{}", kinds, num, den, da, len, rng.below(2)), len as u64 + 9)
}

pub fn gen(seed: u64, thorough: bool, out: &mut dyn FnMut(String)) {
    let mut rng = Rng::new(seed ^ 0xB05);
    let scale = if thorough { 10 } else { 1 };
    let mut id = 0u64;
    let mut next_seed = |rng: &mut Rng| {
        id += 1;
        (rng.next() >> 20) ^ id
    };

    // ---- cold start together / joining / several joiners, no applications, inside the class
    for k in 0..(120 * scale) {
        let c = pick_cfg(&mut rng, thorough);
        let n = 2 + rng.below(4) as usize;
        let addrs = pick_addrs(&mut rng, c.hsa, n);
        let n = addrs.len();
        let tslot = bits_us(c.baud_idx, c.slot);
        let style = k % 4; // 0 cold, 1 join active bus, 2 several joiners, 3 lock-step cold
        let pc = if rng.chance(1, 5) { 2 } else { 0 };
        let lock = pick_period(&mut rng, &c, pc);
        let conv = t_conv_bits(&c, n as u64, 0);
        let mut last_on = 0i64;
        let mut st = Vec::new();
        for (i, a) in addrs.iter().enumerate() {
            let p = if style == 3 { lock } else { pick_period(&mut rng, &c, pc) };
            let phase = if style == 3 { 0 } else { rng.below(p.1 as u64) as i64 };
            let on = match style {
                1 if i == n - 1 => bits_us(c.baud_idx, rng.below(conv)),
                2 if i >= 1 => {
                    if rng.chance(1, 2) {
                        bits_us(c.baud_idx, conv / 2)
                    } else {
                        bits_us(c.baud_idx, rng.below(conv))
                    }
                }
                _ => 0,
            };
            // a later station joining a SILENT bus may race the claim (excluded class): keep the first
            // station alone long enough only in styles 1/2 where the bus is active by then
            last_on = last_on.max(on);
            st.push(station_line(*a, on, phase, p, "n"));
        }
        let _ = tslot;
        let dur_bits = conv + (last_on as u64 * BAUDS[c.baud_idx].to_rate() / 1_000_000) + 40 * n as u64 * (c.slot + 300);
        let s = Scn {
            label: ["cold", "join", "joiners", "lockstep"][style as usize].to_string(),
            c,
            dur_bits,
            stations: st,
            resp: "-".to_string(),
            events: vec![],
            seed: next_seed(&mut rng),
            cg: if rng.chance(1, 4) { 2 } else { 0 },
        };
        emit(&s, out);
    }

    // ---- staggered starts on a silent bus: provokes the (excluded) cold-start claim race
    for _ in 0..(40 * scale) {
        let c = pick_cfg(&mut rng, thorough);
        let pc = if rng.chance(1, 5) { 2 } else { 0 };
        let n = 2 + rng.below(3) as usize;
        let mut addrs = pick_addrs(&mut rng, c.hsa, n);
        addrs.sort();
        let n = addrs.len();
        let tslot = bits_us(c.baud_idx, c.slot);
        let conv = t_conv_bits(&c, n as u64, 0);
        let mut st = Vec::new();
        let amax = *addrs.last().unwrap() as i64;
        for a in addrs.iter() {
            let p = pick_period(&mut rng, &c, pc);
            // station a's time-out is (6+2a) Tslot after going online: start so that all expire together
            let on = 2 * (amax - *a as i64) * tslot + rng.range(-(p.1), p.1).max(0) * (rng.below(2) as i64);
            st.push(station_line(*a, on.max(0), rng.below(p.1 as u64) as i64, p, "n"));
        }
        let dur_bits = 2 * conv + 40 * n as u64 * (c.slot + 300);
        let s = Scn {
            label: "race".to_string(),
            c,
            dur_bits,
            stations: st,
            resp: "-".to_string(),
            events: vec![],
            seed: next_seed(&mut rng),
            cg: rng.below(2) as u8 + if rng.chance(1, 4) { 2 } else { 0 },
        };
        emit(&s, out);
    }

    // ---- applications of every appetite, small TTR, optional responder
    for _ in 0..(80 * scale) {
        let mut c = pick_cfg(&mut rng, thorough);
        let pc = if rng.chance(1, 5) { 2 } else { 0 };
        let n = 2 + rng.below(3) as usize;
        let addrs = pick_addrs(&mut rng, c.hsa, n);
        let n = addrs.len();
        c.hsa = c.hsa.min(16);
        c.gap = c.gap.min(2);
        c.ttr = match rng.below(4) {
            0 => 256,
            1 => 256 + rng.below(2000),
            2 => 2000 + rng.below(6000),
            _ => 12000,
        };
        let addrs: Vec<u8> = addrs.iter().map(|a| a % (c.hsa as u8)).collect();
        let mut addrs = addrs;
        addrs.sort();
        addrs.dedup();
        if addrs.len() < 2 {
            addrs = vec![0, (c.hsa - 1) as u8];
        }
        let n = addrs.len();
        let has_resp = rng.chance(1, 2);
        let tslot = bits_us(c.baud_idx, c.slot);
        let b11 = bits_us(c.baud_idx, 11) + 1;
        let mut rlen = 0u64;
        let resp = if has_resp {
            let ra = if rng.chance(1, 2) { 126 - rng.below(20) as u8 } else { (c.hsa as u8).max(1) + rng.below(3) as u8 };
            let ra = if addrs.contains(&ra) { 125 } else { ra };
            let delay = match rng.below(3) {
                0 => b11,
                1 => b11 + rng.below((tslot / 2).max(1) as u64) as i64,
                _ => (tslot - 2 * b11 - 2).max(b11),
            };
            rlen = *rng.pick(&[0u64, 1, 16, 60]);
            format!("{},{},{}", ra, delay, rlen)
        } else {
            "-".to_string()
        };
        let mut st = Vec::new();
        let mut maxreq = 0u64;
        for a in addrs.iter() {
            let p = pick_period(&mut rng, &c, pc);
            let (app, l) = if rng.chance(4, 5) { pick_app(&mut rng, &addrs, *a, has_resp, &c) } else { ("n".to_string(), 0) };
            maxreq = maxreq.max(l);
            st.push(station_line(*a, 0, rng.below(p.1 as u64) as i64, p, &app));
        }
        // rotation with traffic: TTR + N (cycle + gap + pass)
        let traffic = c.ttr + n as u64 * (11 * (maxreq + rlen + 9) + 4 * c.slot + 400);
        let conv = t_conv_bits(&c, n as u64, traffic);
        let s = Scn {
            label: "traffic".to_string(),
            c,
            dur_bits: conv + 12 * (traffic + n as u64 * 600),
            stations: st,
            resp,
            events: vec![],
            seed: next_seed(&mut rng),
            cg: 0,
        };
        emit(&s, out);
    }

    // ---- fault plans on a ring
    for _ in 0..(100 * scale) {
        let c = pick_cfg(&mut rng, thorough);
        let pc = if rng.chance(1, 5) { 2 } else { 0 };
        let n = 2 + rng.below(4) as usize;
        let addrs = pick_addrs(&mut rng, c.hsa, n);
        let n = addrs.len();
        let conv = t_conv_bits(&c, n as u64, 0);
        let mut st = Vec::new();
        for a in addrs.iter() {
            let p = pick_period(&mut rng, &c, pc);
            st.push(station_line(*a, 0, rng.below(p.1 as u64) as i64, p, "n"));
        }
        // disturbances within [conv/4, conv/4 + span]
        let t0 = conv / 4;
        let span = conv / 4;
        let mut ev = Vec::new();
        let mut dead: Vec<u8> = Vec::new();
        for _ in 0..(1 + rng.below(5)) {
            let t = bits_us(c.baud_idx, t0 + rng.below(span));
            match rng.below(7) {
                0 => ev.push(format!("D,{}", t)),
                1 => ev.push(format!("F,{},{},{}", t, rng.below(8), 1 + rng.below(255))),
                2 => ev.push(format!("T,{},{}", t, rng.below(6))),
                3 => ev.push(format!("C,{},{},{}", t, t + bits_us(c.baud_idx, 11 + rng.below(3000)), 1 + rng.below(255))),
                4 | 5 => {
                    let a = *rng.pick(&addrs);
                    if !dead.contains(&a) && dead.len() + 1 < n {
                        ev.push(format!("K,{},{}", t, a));
                        dead.push(a);
                        if rng.chance(1, 2) {
                            let t2 = t + bits_us(c.baud_idx, rng.below(span / 2 + 1));
                            ev.push(format!("R,{},{}", t2, a));
                            dead.pop();
                        }
                    }
                }
                _ => {
                    // burst of drops
                    for j in 0..(2 + rng.below(4)) {
                        ev.push(format!("D,{}", t + j as i64));
                    }
                }
            }
        }
        let s = Scn {
            label: "fault".to_string(),
            c,
            dur_bits: t0 + span + span / 2 + conv + 40 * n as u64 * (c.slot + 300),
            stations: st,
            resp: "-".to_string(),
            events: ev,
            seed: next_seed(&mut rng),
            cg: rng.below(2) as u8 + if rng.chance(1, 4) { 2 } else { 0 },
        };
        emit(&s, out);
    }

    // ---- outside the class: poll periods above Tslot/4 (statistics only)
    for _ in 0..(30 * scale) {
        let c = pick_cfg(&mut rng, thorough);
        let n = 2 + rng.below(3) as usize;
        let addrs = pick_addrs(&mut rng, c.hsa, n);
        let n = addrs.len();
        let conv = t_conv_bits(&c, n as u64, 0);
        let mut st = Vec::new();
        for a in addrs.iter() {
            let p = pick_period(&mut rng, &c, 1);
            st.push(station_line(*a, 0, rng.below(p.1 as u64) as i64, p, "n"));
        }
        let s = Scn {
            label: "slowpoll".to_string(),
            c,
            dur_bits: conv / 2 + 40 * n as u64 * (c.slot + 300),
            stations: st,
            resp: "-".to_string(),
            events: vec![],
            seed: next_seed(&mut rng),
            cg: 0,
        };
        emit(&s, out);
    }
}
