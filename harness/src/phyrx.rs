//! Receive-path domain (C16): the generic `ProfibusPhy` helper methods `receive_telegram`,
//! `receive_all_telegrams`, `poll_pending_received_bytes`, `transmit_telegram` over
//!   (a) a harness PHY whose receive buffer grows chunk by chunk, and
//!   (b) `SimulatorPhy` / `SimulatorBus` (timed byte availability, per-PHY cursor).
//!
//! Case lines:
//!   RXB <A|S> <episode> ...            harness PHY; A = receive_all_telegrams, S = receive_telegram, one call per poll
//!        episode = C=<tel>,<tel>,..=<len>,<len>,..     valid telegrams, chunk lengths (0 = poll without new bytes)
//!                | G<0|1>=<hex>=<len>,<len>,..         garbage bytes (1: must be discarded by the end of the episode)
//!        tel     = D/<da>/<sa>/<dsap|->/<ssap|->/<fc>/<pduhex|-> | T/<da>/<sa> | S
//!   RXS <A|S> <rate> <op> ...          simulator, C16 oracle applies
//!   RXQ <A|S> <rate> <op> ...          simulator, corner cases of the simulator itself (differential only)
//!        op      = Xt@<micros>=<tel> | Xt@<micros>=G<0|1>/<hex>   sender PHY transmits (telegram: transmit_telegram, G: transmit_data)
//!                | Xt@<micros>=H<k>/<tel> | Xt@<micros>=L<k>/<tel>  the first k bytes / the bytes from k on of the frame, through transmit_data
//!                | Xr@<micros>=...                                the receiving PHY itself transmits
//!                | Zr@<micros> | Zt@<micros>                      receiver / sender calls transmit_telegram with a closure that sends nothing
//!                | P@<micros> | F@<micros>                        receiver polls (F: late enough that everything sent has arrived)
//! Result: per poll `P | <telegram> ! <is_last> | ... | r <telegram|-> | p <pending>`, per transmission `X <n> <expects|->`
//! resp. `R <n>`, `N` for a transmit call that sent nothing, joined by ` ; `; `PANIC <loc>` ends the line.
use crate::codec::{all_fcs, fc_str, parse_fc, ref_frame, telegram_str};
use crate::util::*;
use profirust::fdl::*;
use profirust::phy::{ProfibusPhy, SimulatorPhy};
use profirust::time::Instant;
use profirust::Baudrate;

/// PHY of the harness: a byte vector as receive buffer, nothing else.
pub struct BufPhy {
    pub rx: Vec<u8>,
    pub tx: Vec<u8>,
}

impl ProfibusPhy for BufPhy {
    fn poll_transmission(&mut self, _now: Instant) -> bool {
        false
    }
    fn transmit_data<F, R>(&mut self, _now: Instant, f: F) -> R
    where
        F: FnOnce(&mut [u8]) -> (usize, R),
    {
        let mut b = vec![0u8; 256];
        let (n, r) = f(&mut b);
        b.truncate(n);
        self.tx = b;
        r
    }
    fn receive_data<F, R>(&mut self, _now: Instant, f: F) -> R
    where
        F: FnOnce(&[u8]) -> (usize, R),
    {
        let (d, r) = f(&self.rx);
        assert!(d <= self.rx.len(), "dropped more than pending");
        self.rx.drain(..d);
        r
    }
}

#[derive(Clone, Debug)]
pub enum Tel {
    D(DataTelegramHeader, Vec<u8>),
    T(u8, u8),
    S,
}

pub fn tel_token(t: &Tel) -> String {
    match t {
        Tel::D(h, pdu) => format!(
            "D/{}/{}/{}/{}/{}/{}",
            h.da,
            h.sa,
            opt_str(h.dsap),
            opt_str(h.ssap),
            fc_str(h.fc),
            hex(pdu)
        ),
        Tel::T(da, sa) => format!("T/{}/{}", da, sa),
        Tel::S => "S".to_string(),
    }
}

pub fn parse_tel(s: &str) -> Tel {
    let p: Vec<&str> = s.split('/').collect();
    match p[0] {
        "D" => Tel::D(
            DataTelegramHeader {
                da: p[1].parse().unwrap(),
                sa: p[2].parse().unwrap(),
                dsap: parse_opt(p[3]),
                ssap: parse_opt(p[4]),
                fc: parse_fc(p[5]),
            },
            unhex(p[6]),
        ),
        "T" => Tel::T(p[1].parse().unwrap(), p[2].parse().unwrap()),
        _ => Tel::S,
    }
}

/// Frame bytes by the PROFIBUS layout, independent of the crate's encoder.
pub fn tel_bytes(t: &Tel) -> Vec<u8> {
    match t {
        Tel::D(h, pdu) => ref_frame(h.da, h.sa, h.dsap, h.ssap, h.fc.to_byte(), pdu),
        Tel::T(da, sa) => vec![0xDC, *da, *sa],
        Tel::S => vec![0xE5],
    }
}

fn poll<P: ProfibusPhy>(phy: &mut P, now: Instant, all: bool) -> Result<String, String> {
    guarded(|| {
        let mut log: Vec<(String, bool)> = vec![];
        let ret: Option<String> = if all {
            phy.receive_all_telegrams(now, |t, last| {
                let s = telegram_str(&t);
                log.push((s.clone(), last));
                s
            })
        } else {
            phy.receive_telegram(now, |t| {
                let s = telegram_str(&t);
                log.push((s.clone(), false));
                s
            })
        };
        let pending = phy.poll_pending_received_bytes(now);
        let mut out = String::from("P");
        for (s, l) in &log {
            out.push_str(&format!(" | {} ! {}", s, *l as u8));
        }
        out.push_str(&format!(" | r {} | p {}", ret.unwrap_or_else(|| "-".to_string()), pending));
        out
    })
}

/// clamp-split `stream` by the chunk lengths (shared rule with the OCaml driver)
fn split(stream: &[u8], lens: &[usize]) -> Vec<Vec<u8>> {
    let mut pos = 0;
    let mut out = vec![];
    for &l in lens {
        let n = l.min(stream.len() - pos);
        out.push(stream[pos..pos + n].to_vec());
        pos += n;
    }
    out
}

fn parse_lens(s: &str) -> Vec<usize> {
    if s == "-" {
        vec![]
    } else {
        s.split(',').map(|x| x.parse().unwrap()).collect()
    }
}

fn all_bauds() -> Vec<Baudrate> {
    vec![
        Baudrate::B9600,
        Baudrate::B19200,
        Baudrate::B31250,
        Baudrate::B45450,
        Baudrate::B93750,
        Baudrate::B187500,
        Baudrate::B500000,
        Baudrate::B1500000,
        Baudrate::B3000000,
        Baudrate::B6000000,
        Baudrate::B12000000,
    ]
}

fn transmit_tel<P: ProfibusPhy>(phy: &mut P, now: Instant, t: &Tel) -> Option<TelegramTxResponse> {
    phy.transmit_telegram(now, |tx| {
        Some(match t {
            Tel::D(h, pdu) => tx.send_data_telegram(h.clone(), pdu.len(), |b| b.copy_from_slice(pdu)),
            Tel::T(da, sa) => tx.send_token_telegram(*da, *sa),
            Tel::S => tx.send_short_confirmation(),
        })
    })
}

pub fn run_case(line: &str) -> String {
    let p: Vec<&str> = line.split_whitespace().collect();
    let all = p[1] == "A";
    let mut outs: Vec<String> = vec![];
    match p[0] {
        "RXB" => {
            let mut phy = BufPhy { rx: vec![], tx: vec![] };
            let now = Instant::ZERO;
            'eps: for ep in &p[2..] {
                let f: Vec<&str> = ep.split('=').collect();
                let stream: Vec<u8> = if f[0] == "C" {
                    if f[1] == "-" {
                        vec![]
                    } else {
                        f[1].split(',').flat_map(|s| tel_bytes(&parse_tel(s))).collect()
                    }
                } else {
                    unhex(f[1])
                };
                for chunk in split(&stream, &parse_lens(f[2])) {
                    phy.rx.extend_from_slice(&chunk);
                    match poll(&mut phy, now, all) {
                        Ok(s) => outs.push(s),
                        Err(loc) => {
                            outs.push(format!("PANIC {}", loc));
                            break 'eps;
                        }
                    }
                }
            }
        }
        "RXS" | "RXQ" => {
            let rate: u64 = p[2].parse().unwrap();
            let baud = *all_bauds().iter().find(|b| b.to_rate() == rate).expect("baud");
            let mut tx = SimulatorPhy::new(baud, "tx");
            let mut rx = tx.duplicate("rx");
            for op in &p[3..] {
                let (head, arg) = match op.split_once('=') {
                    Some((h, a)) => (h, Some(a)),
                    None => (*op, None),
                };
                let (kind, t) = head.split_once('@').unwrap();
                let now = Instant::from_micros(t.parse::<i64>().unwrap());
                let r = match kind {
                    "P" | "F" => {
                        tx.set_bus_time(now);
                        poll(&mut rx, now, all)
                    }
                    "Zr" | "Zt" => {
                        let phy = if kind == "Zr" { &mut rx } else { &mut tx };
                        guarded(|| {
                            phy.set_bus_time(now);
                            match phy.transmit_telegram(now, |_| None) {
                                None => "N".to_string(),
                                Some(r) => format!("X {} {}", r.bytes_sent(), opt_str(r.expects_reply())),
                            }
                        })
                    }
                    _ => {
                        let arg = arg.unwrap();
                        let phy = if kind == "Xr" { &mut rx } else { &mut tx };
                        guarded(|| {
                            phy.set_bus_time(now);
                            if arg.starts_with('G') || arg.starts_with('H') || arg.starts_with('L') {
                                let (hd, body) = arg.split_once('/').unwrap();
                                let data = if arg.starts_with('G') {
                                    unhex(body)
                                } else {
                                    let k: usize = hd[1..].parse().unwrap();
                                    let f = tel_bytes(&parse_tel(body));
                                    let k = k.min(f.len());
                                    if arg.starts_with('H') { f[..k].to_vec() } else { f[k..].to_vec() }
                                };
                                let n = phy.transmit_data(now, |b| {
                                    b[..data.len()].copy_from_slice(&data);
                                    (data.len(), data.len())
                                });
                                format!("R {}", n)
                            } else {
                                match transmit_tel(phy, now, &parse_tel(arg)) {
                                    Some(r) => format!("X {} {}", r.bytes_sent(), opt_str(r.expects_reply())),
                                    None => "X -".to_string(),
                                }
                            }
                        })
                    }
                };
                match r {
                    Ok(s) => outs.push(s),
                    Err(loc) => {
                        outs.push(format!("PANIC {}", loc));
                        break;
                    }
                }
            }
        }
        other => return format!("BADCASE {}", other),
    }
    if outs.is_empty() {
        "-".to_string()
    } else {
        outs.join(" ; ")
    }
}

// ------------------------------------------------------------------------------------ generation

fn random_tel(rng: &mut Rng, fcs: &[FunctionCode], kind: u64) -> Tel {
    let edge = [0u8, 1, 2, 63, 125, 126, 127];
    let addr = |rng: &mut Rng| if rng.chance(1, 3) { *rng.pick(&edge) } else { rng.below(128) as u8 };
    match kind {
        0 => Tel::S,
        1 => Tel::T(addr(rng), addr(rng)),
        _ => {
            let saps = rng.below(4) as u8;
            let nsap = (saps & 1) as usize + (saps >> 1) as usize;
            let len = match kind {
                2 => 0,                                   // SD1 (without SAPs) / short SD2
                3 => 8 - nsap,                            // SD3
                4 => rng.below(12) as usize,
                5 => rng.below(60) as usize,
                6 => 246 - nsap - rng.below(3) as usize, // at the frame limit
                _ => rng.below(247 - nsap as u64) as usize,
            };
            let sapv = |rng: &mut Rng| if rng.chance(1, 2) { *rng.pick(&[0u8, 51, 54, 58, 60, 61, 62, 255]) } else { rng.byte() };
            let h = DataTelegramHeader {
                da: addr(rng),
                sa: addr(rng),
                dsap: if saps & 1 != 0 { Some(sapv(rng)) } else { None },
                ssap: if saps & 2 != 0 { Some(sapv(rng)) } else { None },
                fc: *rng.pick(fcs),
            };
            // PDU bytes biased towards delimiter values so that payload looks like frame starts
            let pdu: Vec<u8> = (0..len)
                .map(|_| if rng.chance(1, 4) { *rng.pick(&[0x10u8, 0x68, 0xA2, 0xDC, 0xE5, 0x16]) } else { rng.byte() })
                .collect();
            Tel::D(h, pdu)
        }
    }
}

fn random_kind(rng: &mut Rng) -> u64 {
    *rng.pick(&[0u64, 1, 1, 2, 2, 3, 3, 4, 4, 4, 5, 5, 6, 7, 7])
}

/// a random composition of `total` into chunk lengths, in one of several styles
fn random_chunking(rng: &mut Rng, total: usize, bounds: &[usize]) -> Vec<usize> {
    let mut cuts: Vec<usize> = vec![];
    match rng.below(7) {
        0 => {}                                                   // everything at once
        1 if total <= 80 => cuts = (1..total).collect(),          // byte by byte
        2 => cuts = bounds.to_vec(),                              // telegram by telegram
        3 => {
            // around the telegram boundaries
            for &b in bounds {
                let d = rng.range(-2, 2);
                let c = b as i64 + d;
                if c > 0 && (c as usize) < total {
                    cuts.push(c as usize);
                }
            }
        }
        4 => {
            let n = rng.below(4) + 1;
            for _ in 0..n {
                if total > 1 {
                    cuts.push(1 + rng.below(total as u64 - 1) as usize);
                }
            }
        }
        _ => {
            let mut pos = 0usize;
            let maxstep = *rng.pick(&[2usize, 4, 9, 30, 120]);
            loop {
                pos += 1 + rng.below(maxstep as u64) as usize;
                if pos >= total {
                    break;
                }
                cuts.push(pos);
            }
        }
    }
    cuts.sort();
    cuts.dedup();
    let mut lens = vec![];
    let mut prev = 0;
    for c in cuts {
        if c > prev && c < total {
            lens.push(c - prev);
            prev = c;
        }
    }
    lens.push(total - prev);
    // polls without new bytes in between
    if rng.chance(1, 3) {
        let k = rng.below(lens.len() as u64 + 1) as usize;
        lens.insert(k, 0);
    }
    lens
}

fn lens_str(l: &[usize]) -> String {
    if l.is_empty() {
        "-".to_string()
    } else {
        l.iter().map(|x| x.to_string()).collect::<Vec<_>>().join(",")
    }
}

fn clean_episode(tels: &[Tel], lens: &[usize], single: bool) -> String {
    let mut lens = lens.to_vec();
    if single {
        // one receive_telegram call per poll: add polls without new bytes so that everything can drain
        for _ in 0..tels.len() {
            lens.push(0);
        }
    }
    format!(
        "C={}={}",
        if tels.is_empty() { "-".to_string() } else { tels.iter().map(tel_token).collect::<Vec<_>>().join(",") },
        lens_str(&lens)
    )
}

fn bounds_of(tels: &[Tel]) -> (usize, Vec<usize>) {
    let mut pos = 0;
    let mut b = vec![];
    for t in tels {
        pos += tel_bytes(t).len();
        b.push(pos);
    }
    (pos, b)
}

fn non_delim(rng: &mut Rng) -> u8 {
    loop {
        let b = rng.byte();
        if ![0x10u8, 0x68, 0xA2, 0xDC, 0xE5].contains(&b) {
            return b;
        }
    }
}

/// garbage episode: (must_be_discarded, bytes, chunk lengths)
fn garbage_episode(rng: &mut Rng, fcs: &[FunctionCode], single: bool) -> String {
    let kind = rng.below(10);
    let (must, bytes): (bool, Vec<u8>) = match kind {
        0 | 1 => {
            let n = 1 + rng.below(12) as usize;
            (true, (0..n).map(|_| non_delim(rng)).collect())
        }
        2 => {
            // complete data frame with a wrong checksum or end delimiter
            let k = *rng.pick(&[2u64, 3, 4, 5]);
            let mut f = tel_bytes(&random_tel(rng, fcs, k));
            let n = f.len();
            if rng.chance(1, 2) {
                f[n - 2] = f[n - 2].wrapping_add(1 + rng.below(255) as u8);
            } else {
                f[n - 1] = non_delim(rng);
                if f[n - 1] == 0x16 {
                    f[n - 1] = 0x17;
                }
            }
            (true, f)
        }
        3 => {
            // SD2 header with different length bytes / wrong repeated delimiter, exactly 6 bytes
            let a = rng.byte();
            let mut f = vec![0x68, a, a.wrapping_add(1 + rng.below(255) as u8), 0x68, rng.byte(), rng.byte()];
            if rng.chance(1, 3) {
                f[2] = a;
                f[3] = non_delim(rng);
            }
            (true, f)
        }
        4 => {
            // valid telegrams directly followed by non-delimiter bytes
            let k = random_kind(rng);
            let mut f = tel_bytes(&random_tel(rng, fcs, if k >= 6 { 4 } else { k }));
            let n = 1 + rng.below(4) as usize;
            for _ in 0..n {
                f.push(non_delim(rng));
            }
            (true, f)
        }
        5 => {
            // truncated frame: stays in the buffer
            let k = *rng.pick(&[1u64, 2, 3, 4, 5]);
            let f = tel_bytes(&random_tel(rng, fcs, k));
            let cut = 1 + rng.below(f.len() as u64 - 1) as usize;
            (false, f[..cut].to_vec())
        }
        6 => {
            // one corrupted byte somewhere in a valid frame
            let k = *rng.pick(&[2u64, 3, 4, 5]);
            let mut f = tel_bytes(&random_tel(rng, fcs, k));
            let pos = rng.below(f.len() as u64) as usize;
            f[pos] ^= 1 << rng.below(8);
            (false, f)
        }
        8 | 9 => {
            // a VALID but non-canonical variable-length frame: SD2 with LE = 3 or 11 (the crate's own
            // encoder would use SD1 / SD3), alone, followed by another telegram, or by one more byte
            let n = if kind == 8 { 3usize } else { 11 };
            let mut body = vec![rng.below(126) as u8, rng.below(126) as u8, fcs[rng.below(fcs.len() as u64) as usize].to_byte()];
            while body.len() < n {
                body.push(rng.byte());
            }
            let cks = body.iter().fold(0u8, |a, b| a.wrapping_add(*b));
            let mut f = vec![0x68, n as u8, n as u8, 0x68];
            f.extend_from_slice(&body);
            f.push(cks);
            f.push(0x16);
            match rng.below(3) {
                0 => {}
                1 => f.extend_from_slice(&tel_bytes(&random_tel(rng, fcs, 1))),
                _ => f.push(0xE5),
            }
            (false, f)
        }
        _ => {
            let n = 1 + rng.below(20) as usize;
            let mut f = rng.bytes(n);
            if rng.chance(1, 2) {
                f[0] = *rng.pick(&[0x10u8, 0x68, 0xA2, 0xDC]);
            }
            (false, f)
        }
    };
    let mut lens = random_chunking(rng, bytes.len(), &[]);
    if single {
        // one receive_telegram call per poll: a telegram in front of the garbage takes a poll of its own
        lens.push(0);
        lens.push(0);
    }
    format!("G{}={}={}", must as u8, hex(&bytes), lens_str(&lens))
}

/// all compositions of n (as lists of positive chunk lengths)
fn compositions(n: usize) -> Vec<Vec<usize>> {
    let mut out = vec![];
    for mask in 0u32..(1u32 << (n - 1)) {
        let mut lens = vec![];
        let mut cur = 1;
        for i in 0..n - 1 {
            if mask & (1 << i) != 0 {
                lens.push(cur);
                cur = 1;
            } else {
                cur += 1;
            }
        }
        lens.push(cur);
        out.push(lens);
    }
    out
}

fn b2t(rate: u64, bits: u64) -> i64 {
    (bits * 1_000_000 / rate) as i64
}

pub fn gen(seed: u64, thorough: bool, out: &mut dyn FnMut(String)) {
    let mut rng = Rng::new(seed ^ 0xC16);
    let fcs = all_fcs();
    let modes = ["A", "S"];

    // 1. every chunking of short streams
    let h0 = DataTelegramHeader { da: 3, sa: 2, dsap: None, ssap: None, fc: fcs[5] };
    let sd1 = Tel::D(h0.clone(), vec![]);
    let sd2 = Tel::D(h0.clone(), vec![0x68]);
    let shorts: Vec<Vec<Tel>> = vec![
        vec![Tel::S],
        vec![Tel::T(2, 7)],
        vec![Tel::S, Tel::S, Tel::S],
        vec![Tel::S, Tel::T(0xE5, 0xDC), Tel::S],
        vec![Tel::T(1, 2), Tel::T(2, 1)],
        vec![sd1.clone()],
        vec![sd2.clone()],
        vec![Tel::T(9, 8), sd1.clone()],
        vec![sd1.clone(), Tel::T(9, 8), Tel::S],
        vec![Tel::S, sd2.clone(), Tel::S],
        vec![sd1.clone(), Tel::S, Tel::T(5, 6), Tel::S],
    ];
    for tels in &shorts {
        let (total, _) = bounds_of(tels);
        if total > (if thorough { 12 } else { 11 }) {
            continue;
        }
        for lens in compositions(total) {
            for m in modes {
                out(format!("RXB {} {}", m, clean_episode(tels, &lens, m == "S")));
            }
        }
    }
    if thorough {
        let tels = vec![Tel::D(h0.clone(), vec![1, 2, 3, 4, 5, 6, 7, 8]), Tel::S];
        for lens in compositions(15) {
            out(format!("RXB A {}", clean_episode(&tels, &lens, false)));
        }
    }

    // 2. every SD2/SD3/SD1 length, with every SAP combination, inside a small sequence
    for saps in 0..4u8 {
        let nsap = (saps & 1) as usize + (saps >> 1) as usize;
        for len in 0..=(246 - nsap) {
            if !thorough && len > 40 && (len + saps as usize) % 4 != 0 && len < 240 - nsap {
                continue;
            }
            let h = DataTelegramHeader {
                da: rng.below(128) as u8,
                sa: rng.below(128) as u8,
                dsap: if saps & 1 != 0 { Some(rng.byte()) } else { None },
                ssap: if saps & 2 != 0 { Some(rng.byte()) } else { None },
                fc: *rng.pick(&fcs),
            };
            let mut tels = vec![Tel::D(h, rng.bytes(len))];
            if rng.chance(1, 2) {
                let k = random_kind(&mut rng);
                tels.insert(0, random_tel(&mut rng, &fcs, k.min(5)));
            }
            if rng.chance(1, 2) {
                let k = random_kind(&mut rng);
                tels.push(random_tel(&mut rng, &fcs, k.min(5)));
            }
            let (total, b) = bounds_of(&tels);
            let lens = random_chunking(&mut rng, total, &b);
            let m = if rng.chance(3, 4) { "A" } else { "S" };
            out(format!("RXB {} {}", m, clean_episode(&tels, &lens, m == "S")));
        }
    }

    // 3. random sequences of 1..8 telegrams, random chunkings, several clean episodes
    let n3 = if thorough { 40000 } else { 2500 };
    for _ in 0..n3 {
        let m = if rng.chance(3, 4) { "A" } else { "S" };
        let neps = 1 + rng.below(2);
        let mut eps = vec![];
        for _ in 0..neps {
            let n = 1 + rng.below(8) as usize;
            let small = rng.chance(1, 2);
            let tels: Vec<Tel> = (0..n)
                .map(|_| {
                    let k = random_kind(&mut rng);
                    random_tel(&mut rng, &fcs, if small { k.min(4) } else { k })
                })
                .collect();
            let (total, b) = bounds_of(&tels);
            let lens = random_chunking(&mut rng, total, &b);
            eps.push(clean_episode(&tels, &lens, m == "S"));
        }
        out(format!("RXB {} {}", m, eps.join(" ")));
    }

    // 4. garbage episodes between clean ones
    let n4 = if thorough { 30000 } else { 2500 };
    for _ in 0..n4 {
        let m = if rng.chance(3, 4) { "A" } else { "S" };
        let mut eps = vec![];
        let neps = 2 + rng.below(4);
        for i in 0..neps {
            if (i % 2 == 0) == rng.chance(4, 5) {
                eps.push(garbage_episode(&mut rng, &fcs, m == "S"));
            } else {
                let n = 1 + rng.below(3) as usize;
                let tels: Vec<Tel> = (0..n)
                    .map(|_| {
                        let k = random_kind(&mut rng);
                        random_tel(&mut rng, &fcs, k.min(5))
                    })
                    .collect();
                let (total, b) = bounds_of(&tels);
                let lens = random_chunking(&mut rng, total, &b);
                eps.push(clean_episode(&tels, &lens, m == "S"));
            }
        }
        out(format!("RXB {} {}", m, eps.join(" ")));
    }

    // 5. simulator: timed transmissions, polls at arbitrary times (also in the middle of a transmission)
    let rates: Vec<u64> = all_bauds().iter().map(|b| b.to_rate()).collect();
    let n5 = if thorough { 20000 } else { 2000 };
    for i in 0..n5 {
        let m = if rng.chance(3, 4) { "A" } else { "S" };
        let rate = rates[i % rates.len()];
        let mut t: i64 = *rng.pick(&[0i64, 0, 1, 1000, 123456, -5000]);
        let mut ops: Vec<String> = vec![];
        let n = 1 + rng.below(6) as usize;
        let mut sent = 0usize;
        for j in 0..n {
            let garbage = rng.chance(1, 6);
            let split_tel: Option<Vec<u8>>;
            let (tok, len) = if garbage {
                let must;
                let bytes: Vec<u8> = if rng.chance(1, 2) {
                    must = true;
                    let n = 1 + rng.below(10) as usize;
                    (0..n).map(|_| non_delim(&mut rng)).collect()
                } else {
                    must = true;
                    let k = [2u64, 3, 4][j % 3];
                    let mut f = tel_bytes(&random_tel(&mut rng, &fcs, k));
                    let n = f.len();
                    f[n - 2] = f[n - 2].wrapping_add(1);
                    f
                };
                split_tel = None;
                (format!("G{}/{}", must as u8, hex(&bytes)), bytes.len())
            } else {
                let k = random_kind(&mut rng);
                let k = if rng.chance(1, 2) { k.min(4) } else { k };
                let tel = random_tel(&mut rng, &fcs, k);
                split_tel = Some(tel_bytes(&tel));
                (tel_token(&tel), tel_bytes(&tel).len())
            };
            // a telegram may be sent in two pieces (two transmissions with an idle bus in between)
            let split_at = match &split_tel {
                Some(f) if f.len() >= 2 && rng.chance(1, 3) => {
                    let k = 1 + rng.below(f.len() as u64 - 1) as usize;
                    let bad = |piece: &[u8]| matches!(Telegram::deserialize(piece), Some(Ok((_, n))) if n != piece.len());
                    if bad(&f[..k]) || bad(&f[k..]) { None } else { Some(k) }
                }
                _ => None,
            };
            let pieces: Vec<(String, usize)> = match split_at {
                Some(k) => vec![(format!("H{}/{}", k, tok), k), (format!("L{}/{}", k, tok), len - k)],
                None => vec![(tok.clone(), len)],
            };
            sent += 1;
            if j == 0 && rng.chance(1, 8) {
                ops.push(format!("Zr@{}", t));
            }
            for (ptok, plen) in pieces {
                ops.push(format!("Xt@{}={}", t, ptok));
                let dur = b2t(rate, plen as u64 * 11);
                let gap = b2t(rate, 33 + rng.below(200)) + 2;
                // polls during the transmission and in the gap; transmit calls that send nothing while the bus is idle
                let np = rng.below(5);
                let mut evs: Vec<(i64, String)> = (0..np)
                    .map(|_| {
                        let pt = t + rng.below((dur + gap) as u64 + 1) as i64;
                        (pt, format!("P@{}", pt))
                    })
                    .collect();
                let nz = *rng.pick(&[0u64, 0, 1, 1, 2]);
                for _ in 0..nz {
                    let zt = t + dur + 2 + rng.below((gap - 2) as u64 + 1) as i64;
                    evs.push((zt, format!("{}@{}", if rng.chance(5, 6) { "Zr" } else { "Zt" }, zt)));
                }
                evs.sort_by_key(|e| e.0);
                for (_, e) in evs {
                    ops.push(e);
                }
                t += dur + gap;
            }
            if garbage || rng.chance(1, 3) {
                // by now everything sent has arrived
                ops.push(format!("F@{}", t));
                if m == "S" {
                    for _ in 0..sent {
                        ops.push(format!("F@{}", t));
                    }
                }
                sent = 0;
            }
        }
        ops.push(format!("F@{}", t));
        if m == "S" {
            for _ in 0..sent + 1 {
                ops.push(format!("F@{}", t));
            }
        }
        out(format!("RXS {} {} {}", m, rate, ops.join(" ")));
    }

    // 6. simulator corner cases (differential only): short gaps, collisions, the receiver transmitting,
    //    time running backwards, far future, several telegrams in one transmission, empty transmissions
    let n6 = if thorough { 10000 } else { 1500 };
    for i in 0..n6 {
        let m = if rng.chance(2, 3) { "A" } else { "S" };
        let rate = rates[i % rates.len()];
        let mut t: i64 = rng.range(0, 2000);
        let mut ops: Vec<String> = vec![];
        let n = 1 + rng.below(5) as usize;
        for _ in 0..n {
            let who = if rng.chance(1, 4) { "Xr" } else { "Xt" };
            let (tok, len) = match rng.below(24) {
                0 | 2 => {
                    let n = rng.below(6) as usize;
                    let b = rng.bytes(n);
                    (format!("G0/{}", hex(&b)), n)
                }
                1 => {
                    // two telegrams (or telegram + garbage) in one transmission
                    let k1 = rng.below(5);
                    let k2 = rng.below(3);
                    let mut f = tel_bytes(&random_tel(&mut rng, &fcs, k1));
                    if rng.chance(1, 2) {
                        f.extend(tel_bytes(&random_tel(&mut rng, &fcs, k2)));
                    } else {
                        f.push(rng.byte());
                    }
                    (format!("G0/{}", hex(&f)), f.len())
                }
                _ => {
                    let k = random_kind(&mut rng);
                    let tel = random_tel(&mut rng, &fcs, k.min(5));
                    (tel_token(&tel), tel_bytes(&tel).len())
                }
            };
            ops.push(format!("{}@{}={}", who, t, tok));
            let dur = b2t(rate, len as u64 * 11);
            let gap_bits = match rng.below(12) {
                0 => rng.below(11),
                1 => 11 + rng.below(22),
                2 => 33,
                3 => 11,
                _ => 34 + rng.below(100),
            };
            let gap = b2t(rate, len as u64 * 11 + gap_bits) - dur + rng.range(-1, 1);
            let np = rng.below(4);
            // the receiver may not poll while it transmits itself (panic): mostly poll after its transmission
            let lo = if who == "Xr" && rng.chance(5, 6) { dur + 1 } else { 0 };
            let mut pts: Vec<i64> = (0..np).map(|_| t + lo + rng.below((dur + gap.max(0) - lo).max(0) as u64 + 2) as i64).collect();
            if !rng.chance(1, 8) {
                pts.sort();
            }
            for pt in pts {
                ops.push(format!("P@{}", pt));
                if rng.chance(1, 10) {
                    // a transmit call that sends nothing: panics while somebody is still sending
                    ops.push(format!("{}@{}", if rng.chance(1, 2) { "Zr" } else { "Zt" }, pt));
                }
            }
            t += dur + gap.max(0);
            match rng.below(40) {
                0 => t -= rng.range(0, 2 * dur + 10),
                1 => ops.push(format!("P@{}", t - rng.range(0, 3 * dur + 10))),
                2 => ops.push(format!("P@{}", *rng.pick(&[i64::MAX, i64::MIN, 1 << 62, 1_600_000_000_000, 1_500_000_000_000, 20_000_000_000_000]))),
                _ => {}
            }
        }
        ops.push(format!("P@{}", t + b2t(rate, 400)));
        out(format!("RXQ {} {} {}", m, rate, ops.join(" ")));
    }
}
