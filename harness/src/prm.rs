//! Parameter-block domain (C20): gsd_parser::{UserPrmData, UserPrmDataDefinition, UserPrmDataType, PrmBuilder}.
//!
//! Case lines:
//!   PRM <c..|r..>* ; <op> ; <op> ...
//!       c<off>:<hex>                                   Ext_User_Prm_Data_Const(off) = bytes
//!       r<off>:<name>:<dt>:<default>:<cons>:<texts>    Ext_User_Prm_Data_Ref(off) = definition
//!           dt    = u8|u16|u32|s8|s16|s32|b<bit>|a<first>-<last>
//!           cons  = n | m<min>,<max> | e[<v>,<v>,..]
//!           texts = - | t[<textid>=<value>,..]
//!       op = s<name>=<value>  (set_prm)  |  t<name>=<textid>  (set_prm_from_text)
//!     names / text keys are numeric ids: the strings are "p<id>" / "t<id>" for id < 1000 and the
//!     UPPER-CASE variants "P<id-1000>" / "T<id-1000>" for id >= 1000 (distinct names that differ only in letter case).
//!   result: new=ok:<hex> ; <ok|err:<kind>> <hex> ; ...     (as_bytes() after every call)
//!           new=err | new=PANIC <loc> | ... ; PANIC <loc>   (sequence stops at a panic)
//!   WV <dt> <value> <slicehex>     UserPrmDataType::write_value_to_slice on a bare slice
//!   result: ok <hex> | err <hex> | PANIC <loc>
use crate::util::*;
use gsd_parser::{
    PrmBuilder, PrmValueConstraint, SetPrmError, UserPrmData, UserPrmDataDefinition, UserPrmDataType,
};
use std::collections::BTreeMap;
use std::sync::Arc;

/// parameter name of an id: id and id+1000 differ only in ASCII letter case
fn name_str(id: &str) -> String {
    let n: u64 = id.parse().expect("name id");
    if n >= 1000 {
        format!("P{}", n - 1000)
    } else {
        format!("p{}", n)
    }
}

/// text key of an id (same convention)
fn text_str(id: &str) -> String {
    let n: u64 = id.parse().expect("text id");
    if n >= 1000 {
        format!("T{}", n - 1000)
    } else {
        format!("t{}", n)
    }
}

fn flip_case(id: u32) -> u32 {
    if id >= 1000 {
        id - 1000
    } else {
        id + 1000
    }
}

fn parse_dt(s: &str) -> UserPrmDataType {
    match s {
        "u8" => UserPrmDataType::Unsigned8,
        "u16" => UserPrmDataType::Unsigned16,
        "u32" => UserPrmDataType::Unsigned32,
        "s8" => UserPrmDataType::Signed8,
        "s16" => UserPrmDataType::Signed16,
        "s32" => UserPrmDataType::Signed32,
        _ if s.starts_with('b') => UserPrmDataType::Bit(s[1..].parse().expect("bit")),
        _ if s.starts_with('a') => {
            let (f, l) = s[1..].split_once('-').expect("bitarea");
            UserPrmDataType::BitArea(f.parse().expect("first"), l.parse().expect("last"))
        }
        _ => panic!("bad data type {s}"),
    }
}

fn parse_cons(s: &str) -> PrmValueConstraint {
    match &s[..1] {
        "n" => PrmValueConstraint::Unconstrained,
        "m" => {
            let (a, b) = s[1..].split_once(',').expect("minmax");
            PrmValueConstraint::MinMax(a.parse().expect("min"), b.parse().expect("max"))
        }
        "e" => PrmValueConstraint::Enum(
            s[1..].split(',').filter(|x| !x.is_empty()).map(|x| x.parse().expect("enum")).collect(),
        ),
        _ => panic!("bad constraint {s}"),
    }
}

fn parse_texts(s: &str) -> Option<Arc<BTreeMap<String, i64>>> {
    if s == "-" {
        return None;
    }
    let mut m = BTreeMap::new();
    for kv in s[1..].split(',').filter(|x| !x.is_empty()) {
        let (k, v) = kv.split_once('=').expect("text");
        // first entry of a key wins (the model's association list)
        m.entry(text_str(k)).or_insert(v.parse::<i64>().expect("text value"));
    }
    Some(Arc::new(m))
}

fn parse_desc(toks: &[&str]) -> UserPrmData {
    let mut d = UserPrmData::default();
    let mut maxlen = 0usize;
    for t in toks {
        if let Some(rest) = t.strip_prefix('c') {
            let (off, hx) = rest.split_once(':').expect("const");
            let off: usize = off.parse().expect("const offset");
            let data = unhex(hx);
            maxlen = maxlen.max(off + data.len());
            d.data_const.push((off, data));
        } else if let Some(rest) = t.strip_prefix('r') {
            let f: Vec<&str> = rest.split(':').collect();
            assert!(f.len() == 6, "ref token {t}");
            let off: usize = f[0].parse().expect("ref offset");
            let def = UserPrmDataDefinition {
                name: name_str(f[1]),
                data_type: parse_dt(f[2]),
                default_value: f[3].parse().expect("default"),
                constraint: parse_cons(f[4]),
                text_ref: parse_texts(f[5]),
                changeable: true,
                visible: true,
            };
            maxlen = maxlen.max(off + def.data_type.size());
            d.data_ref.push((off, Arc::new(def)));
        } else {
            panic!("bad token {t}");
        }
    }
    d.length = maxlen.min(255) as u8;
    d
}

fn err_kind(e: &SetPrmError) -> &'static str {
    match e {
        SetPrmError::PrmNotFound(_) => "NotFound",
        SetPrmError::PrmWithoutTexts(_) => "NoTexts",
        SetPrmError::PrmTextNotFound { .. } => "TextNotFound",
        SetPrmError::ValueConstraint(_) => "Constraint",
        SetPrmError::ValueRange { .. } => "Range",
    }
}

pub fn run_case(line: &str) -> String {
    let p: Vec<&str> = line.split_whitespace().collect();
    match p[0] {
        "WV" => {
            let dt = parse_dt(p[1]);
            let v: i64 = p[2].parse().expect("value");
            let mut s = unhex(p[3]);
            match guarded(|| {
                let r = dt.write_value_to_slice(v, &mut s);
                (r.is_ok(), s.clone())
            }) {
                Ok((ok, s)) => format!("{} {}", if ok { "ok" } else { "err" }, hex(&s)),
                Err(loc) => format!("PANIC {}", loc),
            }
        }
        "PRM" => {
            let split = p.iter().position(|t| *t == ";").unwrap_or(p.len());
            let desc = parse_desc(&p[1..split]);
            let ops: Vec<&str> = p[split..].iter().copied().filter(|t| *t != ";").collect();
            let mut out = String::new();
            let built = guarded(|| PrmBuilder::new(&desc).map_err(|_| ()));
            let mut b = match built {
                Ok(Ok(b)) => b,
                Ok(Err(())) => return "new=err".to_string(),
                Err(loc) => return format!("new=PANIC {}", loc),
            };
            out.push_str(&format!("new=ok:{}", hex(b.as_bytes())));
            for o in ops {
                let (name, val) = o[1..].split_once('=').expect("op");
                let name = name_str(name);
                let kind = &o[..1];
                let r = guarded(|| {
                    let r = match kind {
                        "s" => b.set_prm(&name, val.parse::<i64>().expect("op value")).map(|_| ()),
                        "t" => b.set_prm_from_text(&name, &text_str(val)).map(|_| ()),
                        _ => panic!("bad op"),
                    };
                    // Display must not panic either (error paths format the error in the tools)
                    match r {
                        Ok(()) => "ok".to_string(),
                        Err(e) => {
                            let _ = format!("{}", e);
                            format!("err:{}", err_kind(&e))
                        }
                    }
                });
                match r {
                    Ok(s) => out.push_str(&format!(" ; {} {}", s, hex(b.as_bytes()))),
                    Err(loc) => {
                        out.push_str(&format!(" ; PANIC {}", loc));
                        break;
                    }
                }
            }
            out
        }
        _ => panic!("bad case {line}"),
    }
}

// ------------------------------------------------------------------------------------ generation

#[derive(Clone, Copy)]
enum Dt {
    U8,
    U16,
    U32,
    S8,
    S16,
    S32,
    Bit(u8),
    Area(u8, u8),
}

impl Dt {
    fn tok(self) -> String {
        match self {
            Dt::U8 => "u8".into(),
            Dt::U16 => "u16".into(),
            Dt::U32 => "u32".into(),
            Dt::S8 => "s8".into(),
            Dt::S16 => "s16".into(),
            Dt::S32 => "s32".into(),
            Dt::Bit(b) => format!("b{}", b),
            Dt::Area(f, l) => format!("a{}-{}", f, l),
        }
    }
    /// the value range the GSD data type has (None: malformed bit position, admits nothing)
    fn range(self) -> Option<(i64, i64)> {
        match self {
            Dt::U8 => Some((0, 255)),
            Dt::U16 => Some((0, 65535)),
            Dt::U32 => Some((0, 4294967295)),
            Dt::S8 => Some((-128, 127)),
            Dt::S16 => Some((-32768, 32767)),
            Dt::S32 => Some((-2147483648, 2147483647)),
            Dt::Bit(b) => {
                if b <= 7 {
                    Some((0, 1))
                } else {
                    None
                }
            }
            Dt::Area(f, l) => {
                if f <= l && l <= 7 {
                    Some((0, (1i64 << (l - f + 1)) - 1))
                } else {
                    None
                }
            }
        }
    }
    fn size(self) -> usize {
        match self {
            Dt::U16 | Dt::S16 => 2,
            Dt::U32 | Dt::S32 => 4,
            _ => 1,
        }
    }
}

struct Ref {
    off: usize,
    name: u32,
    dt: Dt,
    default: i64,
    cons: String,
    cons_vals: Vec<i64>, // interesting values of the constraint (bounds / members)
    texts: Option<Vec<(u32, i64)>>,
}

impl Ref {
    fn tok(&self) -> String {
        let texts = match &self.texts {
            None => "-".to_string(),
            Some(v) => format!("t{}", v.iter().map(|(k, x)| format!("{}={}", k, x)).collect::<Vec<_>>().join(",")),
        };
        format!("r{}:{}:{}:{}:{}:{}", self.off, self.name, self.dt.tok(), self.default, self.cons, texts)
    }
}

fn int_dt(r: &mut Rng) -> Dt {
    *r.pick(&[Dt::U8, Dt::U16, Dt::U32, Dt::S8, Dt::S16, Dt::S32])
}

fn good_area(r: &mut Rng) -> Dt {
    let f = r.below(8) as u8;
    let l = f + r.below(8 - f as u64) as u8;
    Dt::Area(f, l)
}

fn malformed_dt(r: &mut Rng) -> Dt {
    match r.below(8) {
        0 => Dt::Bit(8),
        1 => Dt::Bit(8 + r.below(248) as u8),
        2 => {
            let f = 1 + r.below(7) as u8;
            Dt::Area(f, r.below(f as u64) as u8) // last < first
        }
        3 => Dt::Area(r.below(8) as u8, 8 + r.below(8) as u8), // reaches past bit 7
        4 => Dt::Area(0, 255),                               // bit_size overflows u8
        5 => Dt::Area(r.below(4) as u8, 62 + r.below(10) as u8), // 2i64.pow overflows
        6 => Dt::Area(8 + r.below(200) as u8, 255),          // first >= 8
        _ => Dt::Area(r.byte(), r.byte()),
    }
}

fn any_dt(r: &mut Rng) -> Dt {
    match r.below(10) {
        0..=4 => int_dt(r),
        5 | 6 => Dt::Bit(r.below(8) as u8),
        _ => good_area(r),
    }
}

const EXTREMES: [i64; 26] = [
    0, 1, -1, 2, 127, 128, -128, -129, 255, 256, 32767, 32768, -32768, -32769, 65535, 65536, 2147483647, 2147483648,
    -2147483648, -2147483649, 4294967295, 4294967296, i64::MIN, i64::MAX, i64::MIN + 1, -255,
];

fn value_for(r: &mut Rng, dt: Dt, cons_vals: &[i64]) -> i64 {
    let rg = dt.range();
    // mostly values the declared constraint admits
    if !cons_vals.is_empty() && r.chance(2, 5) {
        if cons_vals.len() == 2 && cons_vals[0] <= cons_vals[1] && r.chance(1, 2) {
            return r.range(cons_vals[0].max(i64::MIN / 2), cons_vals[1].min(i64::MAX / 2));
        }
        return *r.pick(cons_vals);
    }
    match r.below(16) {
        0..=5 => match rg {
            Some((lo, hi)) => r.range(lo, hi),
            None => r.range(0, 3),
        },
        6 => rg.map(|x| x.0).unwrap_or(0),
        7 => rg.map(|x| x.1).unwrap_or(1),
        8 => rg.map(|x| x.0 - 1).unwrap_or(-1),
        9 => rg.map(|x| x.1 + 1).unwrap_or(2),
        10 | 11 if !cons_vals.is_empty() => {
            let v = *r.pick(cons_vals);
            match r.below(4) {
                0 => v.saturating_sub(1),
                1 => v.saturating_add(1),
                _ => v,
            }
        }
        12 => *r.pick(&EXTREMES),
        13 => r.range(-300, 300),
        14 => r.next() as i64,
        _ => match rg {
            Some((lo, hi)) => r.range(lo, hi),
            None => 0,
        },
    }
}

fn gen_cons(r: &mut Rng, dt: Dt) -> (String, Vec<i64>) {
    let (lo, hi) = dt.range().unwrap_or((0, 3));
    match r.below(10) {
        0..=3 => ("n".into(), vec![]),
        4..=6 => {
            // a sub-range of the type, sometimes reaching outside it, rarely empty
            let (mut a, mut b) = (r.range(lo, hi), r.range(lo, hi));
            if a > b && !r.chance(1, 8) {
                std::mem::swap(&mut a, &mut b);
            }
            if r.chance(1, 8) {
                b = hi.saturating_add(r.range(1, 300));
            }
            if r.chance(1, 8) {
                a = lo.saturating_sub(r.range(1, 300));
            }
            if r.chance(1, 6) {
                a = lo;
                b = hi;
            }
            (format!("m{},{}", a, b), vec![a, b])
        }
        _ => {
            let n = r.below(5) as usize;
            let mut vs: Vec<i64> = (0..n).map(|_| r.range(lo, hi)).collect();
            if r.chance(1, 6) {
                vs.push(hi.saturating_add(1));
            }
            if r.chance(1, 6) {
                vs.push(lo.saturating_sub(1));
            }
            (format!("e{}", vs.iter().map(|v| v.to_string()).collect::<Vec<_>>().join(",")), vs)
        }
    }
}

fn gen_texts(r: &mut Rng, dt: Dt, cons_vals: &[i64]) -> Option<Vec<(u32, i64)>> {
    if r.chance(1, 2) {
        return None;
    }
    let n = r.below(5) as u32;
    Some(
        (0..n)
            .map(|k| (if r.chance(1, 6) { flip_case(k) } else { k }, value_for(r, dt, cons_vals)))
            .collect(),
    )
}

fn gen_default(r: &mut Rng, dt: Dt, bad: bool) -> i64 {
    let (lo, hi) = dt.range().unwrap_or((0, 1));
    if bad {
        return *r.pick(&[lo.saturating_sub(1), hi.saturating_add(1), i64::MIN, i64::MAX]);
    }
    match r.below(4) {
        0 => 0i64.clamp(lo, hi),
        1 => lo,
        2 => hi,
        _ => r.range(lo, hi),
    }
}

fn mk_ref(r: &mut Rng, off: usize, name: u32, dt: Dt, bad_default: bool) -> Ref {
    let (cons, cons_vals) = gen_cons(r, dt);
    let texts = gen_texts(r, dt, &cons_vals);
    let name = if r.chance(1, 6) { flip_case(name) } else { name };
    Ref { off, name, dt, default: gen_default(r, dt, bad_default), cons, cons_vals, texts }
}

fn gen_ops(r: &mut Rng, refs: &mut [Ref], n: usize) -> Vec<String> {
    // two references whose names differ only in letter case
    if refs.len() >= 2 && r.chance(1, 5) {
        let i = r.below(refs.len() as u64) as usize;
        let j = r.below(refs.len() as u64) as usize;
        if i != j {
            refs[j].name = flip_case(refs[i].name);
        }
    }
    let refs: &[Ref] = refs;
    let mut ops = vec![];
    for _ in 0..n {
        if refs.is_empty() || r.chance(1, 14) {
            // unknown name
            let name = 900 + r.below(5);
            if r.chance(1, 2) {
                ops.push(format!("s{}={}", name, r.range(-2, 300)));
            } else {
                ops.push(format!("t{}={}", name, r.below(4)));
            }
            continue;
        }
        let rf = &refs[r.below(refs.len() as u64) as usize];
        if r.chance(if rf.texts.is_some() { 2 } else { 1 }, if rf.texts.is_some() { 5 } else { 12 }) {
            // by text: known ids 0..n-1, sometimes unknown
            let nt = rf.texts.as_ref().map(|t| t.len()).unwrap_or(0) as u64;
            let mut id = if nt > 0 && !r.chance(1, 6) {
                rf.texts.as_ref().unwrap()[r.below(nt) as usize].0 as u64
            } else {
                50 + r.below(3)
            };
            if r.chance(1, 7) {
                id = flip_case(id as u32) as u64; // same text key in the other letter case
            }
            let name = if r.chance(1, 7) { flip_case(rf.name) } else { rf.name };
            ops.push(format!("t{}={}", name, id));
        } else {
            // the same name in the other letter case: unknown, or the case twin
            let name = if r.chance(1, 6) { flip_case(rf.name) } else { rf.name };
            ops.push(format!("s{}={}", name, value_for(r, rf.dt, &rf.cons_vals)));
        }
    }
    ops
}

fn const_bytes(r: &mut Rng, n: usize) -> Vec<u8> {
    match r.below(5) {
        0 => vec![0; n],
        1 => vec![0xff; n],
        2 => (0..n).map(|_| *r.pick(&[0u8, 0, 0xaa, 0x55, 0x80, 0x01])).collect(),
        _ => r.bytes(n),
    }
}

fn emit(out: &mut dyn FnMut(String), consts: &[(usize, Vec<u8>)], refs: &[Ref], ops: &[String]) {
    let mut s = String::from("PRM");
    for (o, d) in consts {
        s.push_str(&format!(" c{}:{}", o, hex(d)));
    }
    for rf in refs {
        s.push(' ');
        s.push_str(&rf.tok());
    }
    for o in ops {
        s.push_str(" ; ");
        s.push_str(o);
    }
    out(s);
}

pub fn gen(seed: u64, thorough: bool, out: &mut dyn FnMut(String)) {
    let mut r = Rng::new(seed ^ 0xC20);
    let scale = if thorough { 40 } else { 1 };

    // --- the mock.gsd layout and the DESIGN witness, literally
    out("PRM c0:0000000000000000000000ff r5:1:b0:0:m0,1:t0=0,1=1 r5:2:a1-2:0:m0,3:t0=0,1=1,2=2,3=3 ; t1=1 ; t1=77 ; t2=1 ; t2=77 ; s999=0".into());
    out("PRM c0:aa r0:1:b0:1:n:- r0:2:a1-2:1:n:-".into());
    out("PRM c0:00 r0:1:b0:1:n:- r0:2:a1-2:1:n:- ; s1=0 ; s1=1 ; s2=3 ; s1=1 ; s2=0".into());

    // --- write_value_to_slice on bare slices: every type, boundary values, short slices
    let mut dts: Vec<Dt> = vec![Dt::U8, Dt::U16, Dt::U32, Dt::S8, Dt::S16, Dt::S32];
    for b in 0..10u8 {
        dts.push(Dt::Bit(b));
    }
    dts.push(Dt::Bit(255));
    for f in 0..9u8 {
        for l in 0..9u8 {
            dts.push(Dt::Area(f, l));
        }
    }
    for _ in 0..12 {
        dts.push(malformed_dt(&mut r));
    }
    for dt in &dts {
        let mut vals: Vec<i64> = EXTREMES.to_vec();
        if let Some((lo, hi)) = dt.range() {
            vals.extend([lo, hi, lo - 1, hi + 1, (lo + hi) / 2]);
        }
        vals.extend([3, 4, 7, 8, 15, 16, 31, 32, 63, 64]);
        for _ in 0..4 {
            vals.push(value_for(&mut r, *dt, &[]));
        }
        for v in vals {
            let n = match r.below(8) {
                0 => 0,
                1 => dt.size().saturating_sub(1),
                2 => dt.size(),
                _ => dt.size() + r.below(3) as usize,
            };
            let s = const_bytes(&mut r, n);
            out(format!("WV {} {} {}", dt.tok(), v, hex(&s)));
        }
    }

    // --- single field on an empty / zero / random constant: every data type, many values
    for _ in 0..(700 * scale) {
        let dt = match r.below(12) {
            0 => malformed_dt(&mut r),
            _ => any_dt(&mut r),
        };
        let off = r.below(4) as usize;
        let consts = match r.below(4) {
            0 => vec![],
            1 => vec![(0usize, vec![0u8; off + dt.size() + r.below(2) as usize])],
            _ => {
                let n = (off + dt.size() + 2).saturating_sub(r.below(3) as usize);
                vec![(0usize, const_bytes(&mut r, n))]
            }
        };
        let bad = r.chance(1, 25);
        let mut refs = vec![mk_ref(&mut r, off, 1, dt, bad)];
        let n = 4 + r.below(8) as usize;
        let ops = gen_ops(&mut r, &mut refs, n);
        emit(out, &consts, &refs, &ops);
    }

    // --- bit fields sharing bytes, constants underneath, integers around them
    for _ in 0..(1500 * scale) {
        let len = 1 + r.below(10) as usize;
        let mut consts = vec![];
        for _ in 0..r.below(3) {
            let off = r.below(len as u64) as usize;
            let n = 1 + r.below((len - off) as u64) as usize;
            consts.push((off, const_bytes(&mut r, n)));
        }
        if r.chance(1, 2) {
            consts.insert(0, (0, vec![0u8; len]));
        }
        let mut refs = vec![];
        let mut name = 1u32;
        let nbytes = 1 + r.below(2);
        for _ in 0..nbytes {
            let off = r.below(len as u64) as usize;
            // partition of the 8 bits into consecutive fields (disjoint), sometimes overlapping extras
            let mut bit = r.below(3) as u8;
            while bit < 8 && refs.len() < 7 {
                let w = 1 + r.below(3) as u8;
                let last = (bit + w - 1).min(7);
                let dt = if last == bit && r.chance(2, 3) { Dt::Bit(bit) } else { Dt::Area(bit, last) };
                let bad = r.chance(1, 60);
                refs.push(mk_ref(&mut r, off, name, dt, bad));
                name += 1;
                bit = last + 1 + r.below(2) as u8;
            }
            if r.chance(1, 4) {
                let dt = any_dt(&mut r);
                refs.push(mk_ref(&mut r, off, name, dt, false));
                name += 1;
            }
        }
        for _ in 0..r.below(3) {
            let dt = int_dt(&mut r);
            let off = r.below(len as u64 + 2) as usize;
            let bad = r.chance(1, 60);
            refs.push(mk_ref(&mut r, off, name, dt, bad));
            name += 1;
        }
        if r.chance(1, 3) {
            // shuffle a little: order of the references matters for new()
            let k = r.below(refs.len() as u64) as usize;
            let x = refs.remove(k);
            refs.push(x);
        }
        if r.chance(1, 10) && refs.len() > 1 {
            refs[1].name = refs[0].name; // duplicated name: the first reference wins
        }
        let n = 4 + r.below(10) as usize;
        let ops = gen_ops(&mut r, &mut refs, n);
        emit(out, &consts, &refs, &ops);
    }

    // --- fully random layouts (overlapping everything, malformed positions, bad defaults)
    for _ in 0..(1500 * scale) {
        let len = 1 + r.below(12) as usize;
        let mut consts = vec![];
        for _ in 0..r.below(4) {
            let off = r.below(len as u64) as usize;
            let n = r.below((len - off) as u64 + 1) as usize;
            consts.push((off, const_bytes(&mut r, n)));
        }
        let mut refs = vec![];
        let nrefs = r.below(7) as u32;
        for k in 0..nrefs {
            let dt = if r.chance(1, 20) { malformed_dt(&mut r) } else { any_dt(&mut r) };
            let off = r.below(len as u64 + 3) as usize;
            let name = if r.chance(1, 12) { r.below(nrefs as u64) as u32 + 1 } else { k + 1 };
            let bad = r.chance(1, 40);
            refs.push(mk_ref(&mut r, off, name, dt, bad));
        }
        let n = 3 + r.below(12) as usize;
        let ops = gen_ops(&mut r, &mut refs, n);
        emit(out, &consts, &refs, &ops);
    }
}
