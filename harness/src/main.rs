//! pb_harness: runs the real profirust code on cases and prints canonical results.
//!   pb_harness gen <domain> <seed> <quick|thorough>     -> case lines on stdout
//!   pb_harness run <domain>                              -> reads case lines, prints `<case> => <result>`
//! One case per line; a stateful case (operation sequence / history) is one line too.
mod codec;
mod prm;
mod diag;
mod phyrx;
mod las;
mod scan;
mod fdl;
mod gsd;
mod dp;
mod bus;
mod apps;
mod util;

use std::io::{BufRead, Write};

type GenFn = fn(u64, bool, &mut dyn FnMut(String));
type RunFn = fn(&str) -> String;

/// Registry of domains: name, generator, runner.  Add one line per new domain.
const DOMAINS: &[(&str, GenFn, RunFn)] = &[
    ("codec", codec::gen, codec::run_case),
    ("prm", prm::gen, prm::run_case),
    ("diag", diag::gen, diag::run_case),
    ("phyrx", phyrx::gen, phyrx::run_case),
    ("las", las::gen, las::run_case),
    ("scan", scan::gen, scan::run_case),
    ("fdl", fdl::gen, fdl::run_case),
    ("gsd", gsd::gen, gsd::run_case),
    ("dp", dp::gen, dp::run_case),
    ("bus", bus::gen, bus::run_case),
    ("apps", apps::gen, apps::run_case),
];

fn main() {
    let args: Vec<String> = std::env::args().collect();
    if args.len() < 3 {
        eprintln!("usage: pb_harness gen|run <domain> ...");
        std::process::exit(2);
    }
    util::install_panic_hook();
    util::install_logger();
    let stdout = std::io::stdout();
    let mut w = std::io::BufWriter::with_capacity(1 << 20, stdout.lock());
    let dom = DOMAINS.iter().find(|d| d.0 == args[2]);
    let (_, gen, run) = match dom {
        Some(d) => *d,
        None => {
            eprintln!("unknown domain {}", args[2]);
            std::process::exit(2);
        }
    };
    match args[1].as_str() {
        "gen" => {
            let seed: u64 = args.get(3).map(|s| s.parse().unwrap()).unwrap_or(1);
            let thorough = args.get(4).map(|s| s == "thorough").unwrap_or(false);
            let mut out = |s: String| {
                writeln!(w, "{}", s).unwrap();
            };
            gen(seed, thorough, &mut out);
        }
        "run" => {
            let stdin = std::io::stdin();
            for line in stdin.lock().lines() {
                let line = line.unwrap();
                let line = line.trim();
                if line.is_empty() || line.starts_with('#') {
                    continue;
                }
                let r = run(line);
                writeln!(w, "{} => {}", line, r).unwrap();
            }
        }
        _ => {
            eprintln!("usage: pb_harness gen|run <domain> ...");
            std::process::exit(2);
        }
    }
    w.flush().unwrap();
}
