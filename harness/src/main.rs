//! pb_harness: runs the real profirust code on cases and prints canonical results.
//!   pb_harness gen <domain> <seed> <quick|thorough>     -> case lines on stdout
//!   pb_harness run <domain>                              -> reads case lines, prints `<case> => <result>`
mod codec;
mod util;

use std::io::{BufRead, Write};

fn main() {
    let args: Vec<String> = std::env::args().collect();
    if args.len() < 3 {
        eprintln!("usage: pb_harness gen|run <domain> ...");
        std::process::exit(2);
    }
    util::install_panic_hook();
    util::install_logger();
    let stdout = std::io::stdout();
    let mut w = std::io::BufWriter::with_capacity(1 << 20, stdout.lock());
    match (args[1].as_str(), args[2].as_str()) {
        ("gen", domain) => {
            let seed: u64 = args.get(3).map(|s| s.parse().unwrap()).unwrap_or(1);
            let thorough = args.get(4).map(|s| s == "thorough").unwrap_or(false);
            let mut out = |s: String| {
                writeln!(w, "{}", s).unwrap();
            };
            match domain {
                "codec" => codec::gen(seed, thorough, &mut out),
                _ => {
                    eprintln!("unknown domain {}", domain);
                    std::process::exit(2);
                }
            }
        }
        ("run", domain) => {
            let stdin = std::io::stdin();
            for line in stdin.lock().lines() {
                let line = line.unwrap();
                let line = line.trim();
                if line.is_empty() || line.starts_with('#') {
                    continue;
                }
                let r = match domain {
                    "codec" => codec::run_case(line),
                    _ => {
                        eprintln!("unknown domain {}", domain);
                        std::process::exit(2);
                    }
                };
                writeln!(w, "{} => {}", line, r).unwrap();
            }
        }
        _ => {
            eprintln!("usage: pb_harness gen|run <domain> ...");
            std::process::exit(2);
        }
    }
    w.flush().unwrap();
}
