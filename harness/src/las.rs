//! LAS domain (C02 data-structure half): the real `fdl::TokenRing` through the `verif-hooks` wrapper.
//!
//! Case line:   `<tag> <ts> <op>;<op>;...`      (ops may be `-` for none)
//!   tag  `G`                general case
//!        `D:<k>:<r0,r1,..>` discovery case: k ignored passes, one wrap-around pass, two rotations of R
//!        `A`                public API only: a listening FdlActiveStation on the simulator bus hears the passes
//!                           as token telegrams; observed through inspect_token_ring() (W ops only, sa != ts)
//!   op   `W sa da` witness_token_pass | `C` claim_token | `N a` set_next_station | `R a` remove_station
//! Result:      one observation per state, `;` separated, the first one right after `new`:
//!   `<S><ready>:<ns>:<ps>:<a,b,c|->`  S = U|D|V|L (las_state as printed by Debug) or P (Debug panicked)
//!   a panicking operation ends the list with `PANIC <file:line>`.
use crate::util::*;
use profirust::verif_hooks::token_ring::TokenRing;

fn observe(r: &TokenRing) -> String {
    let las = r.active_stations();
    let dbg = guarded(|| r.debug_string());
    let s = match &dbg {
        Err(_) => 'P',
        Ok(d) => {
            // canonicalise: only the las_state name and the address list are taken from Debug
            let st = if d.contains("las_state: Uninitialized") {
                'U'
            } else if d.contains("las_state: Discovery") {
                'D'
            } else if d.contains("las_state: Verification") {
                'V'
            } else if d.contains("las_state: Valid") {
                'L'
            } else {
                '?'
            };
            let list = d
                .rsplit("active_stations: [")
                .next()
                .and_then(|t| t.split(']').next())
                .unwrap_or("?");
            let want = las.iter().map(|a| a.to_string()).collect::<Vec<_>>().join(", ");
            let hdr = format!(
                "previous_station: {}, this_station: {}, next_station: {},",
                r.previous_station(),
                r.this_station(),
                r.next_station()
            );
            if list != want || !d.contains(&hdr) {
                'X' // Debug output disagrees with the accessors
            } else {
                st
            }
        }
    };
    let l = if las.is_empty() {
        "-".to_string()
    } else {
        las.iter().map(|a| a.to_string()).collect::<Vec<_>>().join(",")
    };
    format!(
        "{}{}:{}:{}:{}",
        s,
        if r.ready_for_ring() { 1 } else { 0 },
        r.next_station(),
        r.previous_station(),
        l
    )
}

/// Observation through the public API only: `FdlActiveStation::inspect_token_ring()`.
fn observe_api(fdl: &profirust::fdl::FdlActiveStation) -> String {
    let r = fdl.inspect_token_ring();
    let las: Vec<u8> = r.iter_active_stations().collect();
    let d = format!("{:?}", r);
    let st = if d.contains("las_state: Uninitialized") {
        'U'
    } else if d.contains("las_state: Discovery") {
        'D'
    } else if d.contains("las_state: Verification") {
        'V'
    } else if d.contains("las_state: Valid") {
        'L'
    } else {
        '?'
    };
    let l = if las.is_empty() {
        "-".to_string()
    } else {
        las.iter().map(|a| a.to_string()).collect::<Vec<_>>().join(",")
    };
    format!(
        "{}{}:{}:{}:{}",
        st,
        if r.ready_for_ring() { 1 } else { 0 },
        r.next_station(),
        r.previous_station(),
        l
    )
}

/// Tag `A`: a listening `FdlActiveStation` on the simulator bus hears token telegrams sent by a
/// second PHY (only `W` operations, source address different from the own one).
fn run_api(ts: u8, ops: &str) -> String {
    use profirust::phy::ProfibusPhy;
    let baud = profirust::Baudrate::B500000;
    let r = guarded(|| {
        let mut out: Vec<String> = Vec::new();
        let phy_main = profirust::phy::SimulatorPhy::new(baud, "main");
        let mut phy_ut = phy_main.duplicate("ut");
        let mut phy_tx = phy_main.duplicate("tx");
        let mut fdl = profirust::fdl::FdlActiveStation::new(
            profirust::fdl::ParametersBuilder::new(ts, baud).build(),
        );
        fdl.set_online();
        let mut now = profirust::time::Instant::ZERO;
        phy_main.set_bus_time(now);
        fdl.poll(now, &mut phy_ut, &mut ());
        out.push(observe_api(&fdl));
        if ops != "-" {
            for op in ops.split(';') {
                let t: Vec<&str> = op.split_whitespace().collect();
                assert_eq!(t[0], "W");
                let sa: u8 = t[1].parse().unwrap();
                let da: u8 = t[2].parse().unwrap();
                phy_tx
                    .transmit_telegram(now, |tx| Some(tx.send_token_telegram(da, sa)))
                    .unwrap();
                now += baud.bits_to_time(33 + 40);
                phy_main.set_bus_time(now);
                assert!(!phy_tx.poll_transmission(now));
                fdl.poll(now, &mut phy_ut, &mut ());
                out.push(observe_api(&fdl));
            }
        }
        out.join(";")
    });
    match r {
        Ok(s) => s,
        Err(loc) => format!("PANIC {}", loc),
    }
}

pub fn run_case(line: &str) -> String {
    let mut it = line.splitn(3, ' ');
    let tag = it.next().unwrap_or("");
    let ts: u8 = it.next().unwrap_or("0").parse().expect("ts");
    let ops = it.next().unwrap_or("-");
    if tag == "A" {
        return run_api(ts, ops);
    }
    let mut out: Vec<String> = Vec::new();
    let mut param = profirust::fdl::Parameters::default();
    param.address = ts;
    let mut ring = match guarded(|| TokenRing::new(&param)) {
        Ok(r) => r,
        Err(loc) => return format!("PANIC {}", loc),
    };
    assert_eq!(ring.this_station(), ts);
    out.push(observe(&ring));
    if ops != "-" {
        for op in ops.split(';') {
            let t: Vec<&str> = op.split_whitespace().collect();
            let r = guarded(|| match t[0] {
                "W" => ring.witness_token_pass(t[1].parse().unwrap(), t[2].parse().unwrap()),
                "C" => ring.claim_token(),
                "N" => ring.set_next_station(t[1].parse().unwrap()),
                "R" => ring.remove_station(t[1].parse().unwrap()),
                _ => panic!("bad op"),
            });
            match r {
                Ok(()) => out.push(observe(&ring)),
                Err(loc) => {
                    out.push(format!("PANIC {}", loc));
                    break;
                }
            }
        }
    }
    out.join(";")
}

// ------------------------------------------------------------------------------------ generation

fn random_ring(rng: &mut Rng) -> Vec<u8> {
    let n = match rng.below(10) {
        0 => 1,
        1 => 2,
        2..=6 => rng.range(3, 8) as usize,
        7 | 8 => rng.range(9, 32) as usize,
        _ => rng.range(33, 126) as usize,
    };
    let mut v: Vec<u8> = Vec::new();
    if rng.chance(1, 4) {
        v.push(0);
    }
    if rng.chance(1, 4) {
        v.push(125);
    }
    while v.len() < n {
        let a = rng.below(126) as u8;
        if !v.contains(&a) {
            v.push(a);
        }
    }
    v.sort();
    v
}

fn rotation(r: &[u8]) -> Vec<(u8, u8)> {
    (0..r.len()).map(|i| (r[i], r[(i + 1) % r.len()])).collect()
}

fn pick_ts(rng: &mut Rng, r: &[u8]) -> u8 {
    match rng.below(8) {
        0 => 0,
        1 => 125,
        2 | 3 => *rng.pick(r),
        4 => {
            // TS-1 / TS+1 of a member
            let a = *rng.pick(r);
            if rng.chance(1, 2) {
                a.saturating_sub(1)
            } else {
                (a + 1).min(125)
            }
        }
        _ => rng.below(126) as u8,
    }
}

fn w(p: (u8, u8)) -> String {
    format!("W {} {}", p.0, p.1)
}

/// k passes that a listening station ignores while Uninitialized (no valid wrap-around among them)
fn ignored_prefix(rng: &mut Rng, r: &[u8], ops: &mut Vec<String>) -> usize {
    let rot = rotation(r);
    let mut k = 0;
    match rng.below(4) {
        0 => {}
        1 => {
            // a suffix of the rotation (without its wrap-around)
            let start = rng.below(r.len() as u64) as usize;
            for p in &rot[start..rot.len() - 1] {
                ops.push(w(*p));
                k += 1;
            }
        }
        _ => {
            for _ in 0..rng.below(6) {
                let p = match rng.below(3) {
                    0 => (rng.range(126, 255) as u8, rng.byte()),
                    1 => (rng.byte(), rng.range(126, 255) as u8),
                    _ => {
                        let a = rng.below(125) as u8;
                        (a, rng.range(a as i64 + 1, 125) as u8)
                    }
                };
                ops.push(w(p));
                k += 1;
            }
        }
    }
    k
}

fn discovery_ops(rng: &mut Rng, r: &[u8]) -> (usize, Vec<String>) {
    let mut ops = Vec::new();
    let k = ignored_prefix(rng, r, &mut ops);
    let rot = rotation(r);
    // the wrap-around that starts discovery: the ring's own, or any other one
    if rng.chance(3, 4) {
        ops.push(w(*rot.last().unwrap()));
    } else {
        let a = rng.below(126) as u8;
        ops.push(w((a, rng.below(a as u64 + 1) as u8)));
    }
    for _ in 0..2 {
        for p in &rot {
            ops.push(w(*p));
        }
    }
    (k, ops)
}

fn ring_str(r: &[u8]) -> String {
    r.iter().map(|a| a.to_string()).collect::<Vec<_>>().join(",")
}

fn random_addr(rng: &mut Rng, r: &[u8]) -> u8 {
    match rng.below(10) {
        0..=4 => *rng.pick(r),
        5 | 6 => rng.below(126) as u8,
        7 => *rng.pick(&[0u8, 1, 124, 125]),
        8 => rng.range(126, 127) as u8,
        _ => rng.range(126, 255) as u8,
    }
}

/// continuation after the ring is established: stability, leaves, joins, GAP results, garbage
fn continuation(rng: &mut Rng, ring: &mut Vec<u8>, ts: u8, ops: &mut Vec<String>, wild: bool) {
    let steps = rng.range(1, 6);
    for _ in 0..steps {
        match rng.below(if wild { 10 } else { 7 }) {
            0 | 1 => {
                // further rotations (possibly partial) of the current ring
                let rot = rotation(ring);
                let n = rng.range(1, 2 * rot.len() as i64) as usize;
                for i in 0..n {
                    ops.push(w(rot[i % rot.len()]));
                }
            }
            2 => {
                // a station leaves: its predecessor passes over it (full rotation with the skip)
                if ring.len() > 1 {
                    let i = rng.below(ring.len() as u64) as usize;
                    ring.remove(i);
                }
                for p in rotation(ring) {
                    ops.push(w(p));
                }
            }
            3 => {
                // a newcomer joins: a -> b, then b passes on
                let b = rng.below(126) as u8;
                if !ring.contains(&b) {
                    ring.push(b);
                    ring.sort();
                }
                for p in rotation(ring) {
                    ops.push(w(p));
                }
            }
            4 => {
                // own GAP poll found a successor / own successor vanished
                let a = if rng.chance(5, 6) { rng.below(126) as u8 } else { random_addr(rng, ring) };
                if rng.chance(1, 2) {
                    ops.push(format!("N {}", a));
                } else {
                    ops.push(format!("R {}", a));
                }
            }
            5 => {
                // own token pass (as the FDL layer reports it) to some member
                ops.push(w((ts, *rng.pick(ring))));
            }
            6 => ops.push("C".to_string()),
            7 => {
                // skipped stations / arbitrary valid passes
                for _ in 0..rng.range(1, 4) {
                    ops.push(w((random_addr(rng, ring), random_addr(rng, ring))));
                }
            }
            8 => ops.push(w((rng.byte(), rng.byte()))),
            _ => {
                let a = random_addr(rng, ring);
                ops.push(if rng.chance(1, 2) { format!("N {}", a) } else { format!("R {}", a) });
            }
        }
    }
}

fn exhaustive(alpha: &[u8], tss: &[u8], len: usize, witness_only: bool, out: &mut dyn FnMut(String)) {
    let mut ops: Vec<String> = Vec::new();
    for a in alpha {
        for b in alpha {
            ops.push(format!("W {} {}", a, b));
        }
    }
    if !witness_only {
        ops.push("C".into());
        for a in alpha {
            ops.push(format!("N {}", a));
            ops.push(format!("R {}", a));
        }
    }
    let n = ops.len();
    for ts in tss {
        let mut idx = vec![0usize; len];
        loop {
            let s: Vec<&str> = idx.iter().map(|i| ops[*i].as_str()).collect();
            out(format!("G {} {}", ts, s.join(";")));
            let mut i = 0;
            while i < len {
                idx[i] += 1;
                if idx[i] < n {
                    break;
                }
                idx[i] = 0;
                i += 1;
            }
            if i == len {
                break;
            }
        }
    }
}

pub fn gen(seed: u64, thorough: bool, out: &mut dyn FnMut(String)) {
    let mut rng = Rng::new(seed ^ 0x1A5);
    // construction alone, every own address (>= 128 is out of the bit array)
    for ts in 0..=255u32 {
        out(format!("G {} -", ts));
    }
    // exhaustive short sequences over small alphabets
    for l in 1..=3 {
        exhaustive(&[0, 1, 2], &[0, 1, 2], l, false, out);
    }
    for l in 1..=2 {
        exhaustive(&[0, 60, 125], &[0, 60, 125, 30], l, false, out);
        exhaustive(&[0, 125, 126, 127, 128, 255], &[0, 125, 127], l, false, out);
    }
    exhaustive(&[0, 1, 2], &[0, 1, 2, 3], 4, true, out);
    exhaustive(&[3, 7], &[3, 5, 7, 9], 6, true, out);
    if thorough {
        exhaustive(&[0, 1, 2], &[0, 1, 2], 4, false, out);
        exhaustive(&[1, 5, 125], &[0, 5, 125], 4, true, out);
        exhaustive(&[0, 1, 2], &[1], 5, true, out);
    }
    // two-station rings, own address at the edges, exhaustively over small pairs
    for a in [0u8, 1, 5, 124] {
        for b in [a + 1, 125] {
            if b <= a {
                continue;
            }
            for ts in [0u8, a, b, 125, a.saturating_sub(1), b.saturating_sub(1).max(a + 1)] {
                let r = [a, b];
                let rot = rotation(&r);
                let mut ops = vec![w(rot[1])];
                for _ in 0..2 {
                    ops.push(w(rot[0]));
                    ops.push(w(rot[1]));
                }
                out(format!("D:0:{} {} {}", ring_str(&r), ts, ops.join(";")));
            }
        }
    }
    let n = if thorough { 60000 } else { 4000 };
    for _ in 0..n {
        let r = random_ring(&mut rng);
        let ts = pick_ts(&mut rng, &r);
        let (k, ops) = discovery_ops(&mut rng, &r);
        out(format!("D:{}:{} {} {}", k, ring_str(&r), ts, ops.join(";")));
    }
    for i in 0..n {
        let mut r = random_ring(&mut rng);
        if r.len() > 40 {
            r.truncate(40);
        }
        let ts = if i % 97 == 0 { rng.range(126, 127) as u8 } else { pick_ts(&mut rng, &r) };
        let (_, mut ops) = discovery_ops(&mut rng, &r);
        continuation(&mut rng, &mut r, ts, &mut ops, i % 3 == 0);
        out(format!("G {} {}", ts, ops.join(";")));
    }
    // the same through the public API: a listening FdlActiveStation hears the token telegrams
    for _ in 0..n / 4 {
        let mut r = random_ring(&mut rng);
        if r.len() > 12 {
            r.truncate(12);
        }
        let mut ts = pick_ts(&mut rng, &r);
        while r.contains(&ts) {
            ts = rng.below(126) as u8;
        }
        let (_, mut ops) = discovery_ops(&mut rng, &r);
        for _ in 0..rng.below(3) {
            // a leave or a join or a stray pass, then another rotation
            match rng.below(3) {
                0 if r.len() > 1 => {
                    let i = rng.below(r.len() as u64) as usize;
                    r.remove(i);
                }
                1 => {
                    let b = rng.below(126) as u8;
                    if !r.contains(&b) && b != ts {
                        r.push(b);
                        r.sort();
                    }
                }
                _ => {
                    let a = rng.byte();
                    if a != ts {
                        ops.push(w((a, rng.byte())));
                    }
                }
            }
            for p in rotation(&r) {
                ops.push(w(p));
            }
        }
        let ops: Vec<String> = ops.into_iter().filter(|o| !o.starts_with(&format!("W {} ", ts))).collect();
        out(format!("A {} {}", ts, ops.join(";")));
    }
    // purely random operation soup (mostly garbage, exercises the Discovery/Verification fall-backs)
    for _ in 0..n / 2 {
        let r = random_ring(&mut rng);
        let r = &r[..r.len().min(5)];
        let ts = pick_ts(&mut rng, r);
        let mut ops = Vec::new();
        for _ in 0..rng.range(1, 30) {
            match rng.below(12) {
                0 => ops.push("C".to_string()),
                1 => ops.push(format!("N {}", random_addr(&mut rng, r))),
                2 => ops.push(format!("R {}", random_addr(&mut rng, r))),
                _ => ops.push(w((random_addr(&mut rng, r), random_addr(&mut rng, r)))),
            }
        }
        out(format!("G {} {}", ts, ops.join(";")));
    }
}
