//! Copies the GSD grammar of the crate under test next to the harness sources, so that the
//! harness can compile its own pest parser from the SAME grammar text (domain `gsd`, property C19).
//! The repository path is taken from the generated Cargo.toml (dependency `gsd-parser = { path = .. }`).
use std::path::PathBuf;

fn main() {
    let dir = PathBuf::from(std::env::var("CARGO_MANIFEST_DIR").unwrap());
    let manifest = std::fs::read_to_string(dir.join("Cargo.toml")).expect("Cargo.toml");
    let line = manifest
        .lines()
        .find(|l| l.trim_start().starts_with("gsd-parser"))
        .expect("gsd-parser dependency in Cargo.toml");
    let start = line.find("path = \"").expect("path of gsd-parser") + 8;
    let end = start + line[start..].find('"').unwrap();
    let src = PathBuf::from(&line[start..end]).join("src").join("gsd.pest");
    let text = std::fs::read_to_string(&src).unwrap_or_else(|e| panic!("{}: {}", src.display(), e));
    let dst = dir.join("src").join("gsd_copy.pest");
    if std::fs::read_to_string(&dst).ok().as_deref() != Some(text.as_str()) {
        std::fs::write(&dst, &text).expect("write gsd_copy.pest");
    }
    // the shipped example file (mutation seed of the generator)
    let mock_src = PathBuf::from(&line[start..end]).join("tests").join("data").join("mock.gsd");
    let mock = std::fs::read(&mock_src).unwrap_or_default();
    let mock_dst = dir.join("src").join("gsd_mock_copy.gsd");
    if std::fs::read(&mock_dst).ok().as_deref() != Some(&mock[..]) {
        std::fs::write(&mock_dst, &mock).expect("write gsd_mock_copy.gsd");
    }
    println!("cargo:rerun-if-changed={}", mock_src.display());
    println!("cargo:rerun-if-changed={}", src.display());
    println!("cargo:rerun-if-changed=Cargo.toml");
    println!("cargo:rerun-if-changed=build.rs");
}
