"""Translator for src/fdl/active.rs -> coq/Generated/FdlTables.v.

Regenerated on every run (a changed table / constant changes the model):
  * `state_kind`       : the variants of the private `State` enum (payload-free view)
  * `may_<transition>` : for each `State::transition_*`, the set of source states its
                         `debug_assert_state!` admits
  * `have_token_kind`, `is_in_ring_kind`
  * `do_fn`, `do_fn_entry`, `poll_dispatch` : the dispatch `match &self.state` of `poll_inner` and the
                         entry assertion of every `do_*` function
  * `passive_entry_kind`, `online_entry_kind` : the connectivity-state prologue of `poll_inner`
  * `attempt`, `check_pass_next`, `check_pass_removes` : PassTokenAttempt and the retry table of
                         `do_check_token_pass`
  * numeric constants : synchronisation pause bits, GAP reserve margin, bits per byte of `mark_tx`,
                         collision counters, and the status-reply states / GAP reply acceptance
Shapes that are modelled by hand (ClaimTokenStep progression, GapState, ...) are *checked* here and
raise TRANSLATE-ERROR when they change.
"""
import re


def register(T):
    need, block_after, strip_comments, TranslateError = T.need, T.block_after, T.strip_comments, T.TranslateError

    def variants_of_private_enum(src, name):
        body = strip_comments(block_after(src, r"\benum " + name + r"\s*\{", f"enum {name}"))
        body = re.sub(r"#\[[^\]]*\]", "", body)
        # remove payload blocks
        flat = re.sub(r"\{[^{}]*\}", "", body)
        flat = re.sub(r"\([^()]*\)", "", flat)
        names = [v.strip() for v in flat.split(",") if v.strip()]
        for n in names:
            if not re.fullmatch(r"[A-Z][A-Za-z0-9]*", n):
                raise TranslateError(f"unexpected variant text in enum {name}: {n!r}")
        return names, body

    def state_set(text, what, allowed):
        ks = re.findall(r"State::(\w+)", text)
        if not ks:
            raise TranslateError(f"no State:: patterns in {what}")
        for k in ks:
            if k not in allowed:
                raise TranslateError(f"unknown state {k} in {what}")
        return ks

    def gen():
        src = T.read("src/fdl/active.rs")
        code = strip_comments(src)
        out = T.HEADER.replace("translate.py", "tr_fdl.py (src/fdl/active.rs)")
        out += "From PB Require Import Tables.\n\n"

        # ---- State enum ------------------------------------------------------------------
        kinds, sbody = variants_of_private_enum(code, "State")
        expected_payload = {
            "Offline": [], "PassiveIdle": [],
            "ListenToken": ["status_request", "collision_count"],
            "ActiveIdle": ["status_request", "new_previous_station", "collision_count"],
            "UseToken": ["data", "first_cycle_done"],
            "ClaimToken": ["step"],
            "AwaitDataResponse": ["address", "data"],
            "PassToken": ["do_gap", "attempt"],
            "CheckTokenPass": ["attempt"],
            "AwaitStatusResponse": ["address"],
        }
        if sorted(kinds) != sorted(expected_payload):
            raise TranslateError("State variants changed (hand model Fdl.state must follow): " + ",".join(kinds))
        for k, fields in expected_payload.items():
            m = re.search(r"\b" + k + r"\s*(\{[^{}]*\})?\s*,", sbody)
            got = re.findall(r"(\w+)\s*:(?!:)", m.group(1)) if m and m.group(1) else []
            if got != fields:
                raise TranslateError(f"payload of State::{k} changed: {got} (model expects {fields})")
        out += T.coq_ind("state_kind", ["K" + k for k in kinds])
        out += "Definition all_state_kinds : list state_kind := [" + "; ".join("K" + k for k in kinds) + "].\n"

        def table(fname, members):
            return T.coq_match_fn(fname, "state_kind", "bool",
                                  [("K" + k, "true" if k in members else "false") for k in kinds], arg="k")

        # ---- have_token ------------------------------------------------------------------
        body = block_after(code, r"pub fn have_token\(&self\) -> bool \{", "State::have_token")
        mbody = block_after(body, r"match self \{", "have_token match")
        arms = re.findall(r"((?:\s*\|?\s*State::\w+\s*\{\s*\.\.\s*\})+)\s*=>\s*(true|false)", mbody)
        yes, no = [], []
        for pats, val in arms:
            (yes if val == "true" else no).extend(state_set(pats, "have_token", kinds))
        if sorted(yes + no) != sorted(kinds):
            raise TranslateError("have_token does not list every state exactly once")
        out += table("have_token_kind", yes)

        # ---- is_in_ring --------------------------------------------------------------------
        body = block_after(code, r"pub fn is_in_ring\(&self\) -> bool \{", "is_in_ring")
        m = need(re.search(r"matches!\(\s*self\.state,(.*)\)", body, re.S), "is_in_ring matches!")
        out += table("is_in_ring_kind", state_set(m.group(1), "is_in_ring", kinds))

        # ---- transition_* legality ---------------------------------------------------------
        trans = re.findall(r"fn (transition_\w+)\(&mut self", code)
        expected_trans = ["transition_offline", "transition_passive_idle", "transition_listen_token",
                          "transition_active_idle", "transition_use_token", "transition_claim_token",
                          "transition_await_data_response", "transition_pass_token",
                          "transition_check_token_pass", "transition_await_status_response"]
        if sorted(trans) != sorted(expected_trans):
            raise TranslateError("set of transition_* functions changed: " + ",".join(trans))
        for t in expected_trans:
            body = block_after(code, r"fn " + t + r"\(&mut self[^)]*\)\s*\{", t)
            m = need(re.search(r"debug_assert_state!\(\s*self,(.*?)\);", body, re.S), f"debug_assert_state! in {t}")
            out += table("may_" + t, state_set(m.group(1), t, kinds))
            tgt = need(re.search(r"\*self = State::(\w+)", body), f"target of {t}").group(1)
            out += f"Definition target_{t} : state_kind := K{tgt}.\n"

        # ---- do_* entry assertions and the dispatch of poll_inner -----------------------------
        dos = re.findall(r"fn (do_\w+)\s*<", code)
        entry = {}
        for d in dos:
            body = block_after(code, r"fn " + d + r"\s*<[^{]*\{", d)
            m = need(re.search(r"debug_assert_state!\(\s*self\.state,\s*State::(\w+)", body), f"entry assertion of {d}")
            entry[d] = m.group(1)

        def cn(d):
            return "".join(p.capitalize() for p in d.split("_"))
        out += T.coq_ind("do_fn", [cn(d) for d in dos])
        out += T.coq_match_fn("do_fn_entry", "do_fn", "state_kind", [(cn(d), "K" + entry[d]) for d in dos], arg="f")
        pbody = block_after(code, r"fn poll_inner\s*<[^{]*\{", "poll_inner")
        # the last `match &self.state {` is the dispatch
        idx = pbody.rfind("match &self.state {")
        if idx < 0:
            raise TranslateError("dispatch match of poll_inner not found")
        dbody = block_after(pbody[idx:], r"match &self\.state \{", "poll_inner dispatch")
        out += "Inductive poll_target : Set := TgUnreachable | TgTodo | TgDo (f : do_fn).\n"
        disp = {}
        for m in re.finditer(r"State::(\w+)\s*\{\s*\.\.\s*\}\s*=>\s*(unreachable!\(\)|self\.(do_\w+)\()", dbody):
            disp[m.group(1)] = "TgUnreachable" if m.group(2).startswith("unreachable") else f"TgDo {cn(m.group(3))}"
        need(re.search(r"\bs\s*=>\s*todo!", dbody), "todo! default arm of the poll_inner dispatch")
        out += T.coq_match_fn("poll_dispatch", "state_kind", "poll_target",
                              [("K" + k, disp.get(k, "TgTodo")) for k in kinds], arg="k")
        # connectivity prologue
        m = need(re.search(r"ConnectivityState::Passive\s*=>\s*\{.*?match &self\.state \{(.*?)=>\s*\{\s*self\.state\.transition_passive_idle\(\);",
                           pbody, re.S), "Passive prologue of poll_inner")
        out += table("passive_entry_kind", state_set(m.group(1), "passive prologue", kinds))
        need(re.search(r"State::PassiveIdle\s*=>\s*\(\)", pbody), "PassiveIdle => () arm")
        m = need(re.search(r"ConnectivityState::Online\s*=>\s*\{\s*if matches!\(self\.state,([^)]*)\)\s*\{\s*self\.state\.transition_listen_token\(\);",
                           pbody, re.S), "Online prologue of poll_inner")
        out += table("online_entry_kind", state_set(m.group(1), "online prologue", kinds))
        need(re.search(r"ConnectivityState::Offline\s*=>\s*\{\s*debug_assert!\(matches!\(self\.state, State::Offline\)\);", pbody),
             "Offline prologue of poll_inner")

        # ---- PassTokenAttempt and the retry table ------------------------------------------------
        atts, _ = variants_of_private_enum(code, "PassTokenAttempt")
        out += T.coq_ind("attempt", ["Att" + a for a in atts])
        out += "Definition all_attempts : list attempt := [" + "; ".join("Att" + a for a in atts) + "].\n"
        cbody = block_after(code, r"fn do_check_token_pass\s*<[^{]*\{", "do_check_token_pass")
        mbody = block_after(cbody, r"match \*self\.state\.get_check_token_pass_attempt\(\) \{", "retry match")
        nxt, rem = [], []
        for a in atts:
            arm = block_after(mbody, r"PassTokenAttempt::" + a + r"\s*=>\s*\{", f"retry arm {a}")
            m = need(re.search(r"transition_pass_token\(DoGap::No,\s*PassTokenAttempt::(\w+)\)", arm), f"retry arm {a} target")
            nxt.append(("Att" + a, "Att" + m.group(1)))
            rem.append(("Att" + a, "true" if "remove_station" in arm else "false"))
        out += T.coq_match_fn("check_pass_next", "attempt", "attempt", nxt, arg="a")
        out += T.coq_match_fn("check_pass_removes", "attempt", "bool", rem, arg="a")
        first_att = need(re.search(r"transition_pass_token\(DoGap::Yes,\s*PassTokenAttempt::(\w+)\)", code), "first attempt").group(1)
        out += f"Definition first_attempt : attempt := Att{first_att}.\n"

        # ---- numeric constants ---------------------------------------------------------------------
        body = block_after(code, r"fn wait_synchronization_pause\(&mut self[^{]*\{", "wait_synchronization_pause")
        m = need(re.search(r"now <= \(\*self\.last_bus_activity\.get_or_insert\(now\) \+ self\.p\.bits_to_time\(([0-9_]+)\)\)", body),
                 "synchronisation pause comparison")
        out += f"Definition sync_pause_bits : Z := {T.int_expr(m.group(1), 'sync pause')}.\n"
        body = block_after(code, r"fn mark_tx\(&mut self[^{]*\{", "mark_tx")
        m = need(re.search(r"bits_to_time\(([0-9_]+) \* u32::try_from\(bytes\)\.unwrap\(\)\)", re.sub(r"\s+", " ", body).replace("( ", "(").replace(" )", ")")),
                 "mark_tx bits per byte")
        out += f"Definition bits_per_byte : Z := {T.int_expr(m.group(1), 'bits per byte')}.\n"
        ubody = block_after(code, r"fn do_use_token\s*<[^{]*\{", "do_use_token")
        m = need(re.search(r"self\.end_token_hold_time -= self\.p\.bits_to_time\(u32::from\(self\.p\.slot_bits\) \+ ([0-9_]+)\);", ubody),
                 "GAP reserve of the hold time")
        out += f"Definition gap_reserve_extra_bits : Z := {T.int_expr(m.group(1), 'gap reserve')}.\n"
        need(re.search(r"if now < self\.end_token_hold_time \{", ubody), "hold time comparison `now < end_token_hold_time`")
        need(re.search(r"self\.end_token_hold_time = self\.last_token_time \+ self\.p\.token_rotation_time\(\);", ubody), "end of hold time formula")
        # collision counters: `match *collision_count { <n> => warn, 2 | _ => leave }`
        lbody = block_after(code, r"fn do_listen_token\s*<[^{]*\{", "do_listen_token")
        m = need(re.search(r"match \*collision_count \{\s*([0-9]+) => \{.*?\}\s*([0-9]+) \| _ => \{(.*?)\}\s*\}", lbody, re.S), "collision match in do_listen_token")
        if "set_offline" not in m.group(3):
            raise TranslateError("second collision in ListenToken no longer goes offline")
        out += f"Definition listen_collision_tolerated : Z := {int(m.group(1))}.\n"
        hbody = block_after(code, r"fn handle_telegram\(\s*&mut self[^{]*\{", "handle_telegram")
        m = need(re.search(r"match \*collision_count \{\s*([0-9]+) => \{.*?\}\s*([0-9]+) \| _ => \{(.*?)\}\s*\}", hbody, re.S), "collision match in handle_telegram")
        if "transition_listen_token" not in m.group(3):
            raise TranslateError("second collision in ActiveIdle no longer leaves the ring")
        out += f"Definition active_idle_collision_tolerated : Z := {int(m.group(1))}.\n"
        # token lost comparison
        tbody = block_after(code, r"fn handle_lost_token\(\s*&mut self[^{]*\{", "handle_lost_token")
        need(re.search(r"if \(now - last_bus_activity\) >= self\.p\.token_lost_timeout\(\) \{", tbody), "token lost comparison")
        # slot expiry
        sbody2 = block_after(code, r"fn check_slot_expired\(&mut self[^{]*\{", "check_slot_expired")
        if len(re.findall(r"now > \(last_bus_activity \+ self\.p\.slot_time\(\)\)", sbody2)) != 2:
            raise TranslateError("check_slot_expired comparisons changed")
        # ongoing transmission
        obody = block_after(code, r"fn check_for_ongoing_transmision\(\s*&mut self[^{]*\{", "check_for_ongoing_transmision")
        m = re.search(r"if phy_transmitting( \|\| self\.last_bus_activity\.map\(\|l\| now <= l\)\.unwrap_or\(false\))? \{", obody)
        need(m, "condition of check_for_ongoing_transmision")
        out += f"Definition ongoing_uses_predicted_end : bool := {'true' if m.group(1) else 'false'}.\n"

        # ---- status replies and GAP reply evaluation -------------------------------------------------
        m = need(re.search(r"crate::fdl::ResponseState::(\w+)\s*\}\s*else\s*\{\s*crate::fdl::ResponseState::(\w+)\s*\};", lbody), "ListenToken reply states")
        out += f"Definition listen_reply_ready : resp_state := Rs{m.group(1)}.\nDefinition listen_reply_not_ready : resp_state := Rs{m.group(2)}.\n"
        need(re.search(r"let state = if self\.token_ring\.ready_for_ring\(\)\s*&& status_request_source == self\.token_ring\.previous_station\(\)", lbody),
             "ListenToken ready condition")
        abody = block_after(code, r"fn do_active_idle\s*<[^{]*\{", "do_active_idle")
        m = need(re.search(r"crate::fdl::ResponseState::(\w+),\s*crate::fdl::ResponseStatus::(\w+),", abody), "ActiveIdle reply state")
        out += f"Definition active_idle_reply : resp_state := Rs{m.group(1)}.\nDefinition status_reply_status : resp_status := St{m.group(2)}.\n"
        gbody = block_after(code, r"fn await_gap_poll_response\s*<[^{]*\{", "await_gap_poll_response")
        m = need(re.search(r"if status == crate::fdl::ResponseStatus::(\w+)\s*&& matches!\(state,([^)]*)\)", gbody), "GAP reply acceptance")
        sts = re.findall(r"crate::fdl::ResponseState::(\w+)", m.group(2))
        tel = T.read("src/fdl/telegram.rs")
        all_rs = [n for n, _ in T.parse_enum(tel, "ResponseState")]
        out += f"Definition gap_reply_status : resp_status := St{m.group(1)}.\n"
        out += T.coq_match_fn("gap_reply_state_is_master", "resp_state", "bool",
                              [("Rs" + n, "true" if n in sts else "false") for n in all_rs], arg="s")

        # ---- shapes modelled by hand: check only ---------------------------------------------------------
        steps, _ = variants_of_private_enum(code, "ClaimTokenStep")
        if steps != ["FirstToken", "SecondToken", "Scan", "ScanAwaitResponse"]:
            raise TranslateError("ClaimTokenStep variants changed: " + ",".join(steps))
        cl = block_after(code, r"fn do_claim_token\s*<[^{]*\{", "do_claim_token")
        need(re.search(r"ClaimTokenStep::FirstToken => ClaimTokenStep::SecondToken,\s*ClaimTokenStep::SecondToken => ClaimTokenStep::Scan,", cl),
             "claim step progression")
        gs, _ = variants_of_private_enum(code, "GapState")
        if gs != ["Waiting", "DoPoll"]:
            raise TranslateError("GapState variants changed")
        pb = block_after(code, r"fn do_pass_token\s*<[^{]*\{", "do_pass_token")
        need(re.search(r"if \*rotation_count > self\.p\.gap_wait_rotations \{", pb), "gap wait comparison")
        return out

    return {"FdlTables.v": gen}
