"""Constants of src/fdl/live_list.rs and src/dp/scan.rs used by Model/LiveList.v and Model/Scan.v:
station bit array size, last address of the sweep, minimal diagnostics PDU length, the two
diagnostic flag masks the scanner looks at."""
import re


def register(T):
    def cursor_last(src, what):
        # if self.cursor < N { self.cursor += 1 } else { self.cursor = 0 }   -> last address N
        m = T.need(re.search(r"if self\.cursor (<=?) ([0-9]+) \{\s*self\.cursor \+= 1;\s*\} else \{\s*self\.cursor = ([0-9]+);", src),
                   f"cursor advance in {what}")
        last = int(m.group(2)) + (1 if m.group(1) == "<=" else 0)
        return last, int(m.group(3))

    def bits(src, what):
        m = T.need(re.search(r"stations: bitvec::BitArr!\(for ([0-9]+)\)", src), f"station bit array in {what}")
        return int(m.group(1))

    def gen():
        ll = T.read("src/fdl/live_list.rs")
        sc = T.read("src/dp/scan.rs")
        per = T.read("src/dp/peripheral.rs")
        out = T.HEADER.replace("gen/translate.py", "gen/tr_scan.py")
        l_last, l_first = cursor_last(ll, "live_list.rs")
        s_last, s_first = cursor_last(sc, "scan.rs")
        out += f"Definition LL_BITS : Z := {bits(ll, 'live_list.rs')}.\n"
        out += f"Definition LL_LAST : Z := {l_last}.\nDefinition LL_FIRST : Z := {l_first}.\n"
        out += f"Definition SC_BITS : Z := {bits(sc, 'scan.rs')}.\n"
        out += f"Definition SC_LAST : Z := {s_last}.\nDefinition SC_FIRST : Z := {s_first}.\n"
        m = T.need(re.search(r"if t\.pdu\.len\(\) < ([0-9]+) \{", sc), "minimal diagnostics length in scan.rs")
        out += f"Definition SC_MIN_DIAG_LEN : nat := {int(m.group(1))}.\n"
        m = T.need(re.search(r"let master_address = if t\.pdu\[([0-9]+)\] == ([0-9]+) \{", sc), "master address byte in scan.rs")
        out += f"Definition SC_MASTER_IDX : nat := {int(m.group(1))}.\nDefinition SC_NO_MASTER : Z := {int(m.group(2))}.\n"
        m = T.need(re.search(r"u16::from_le_bytes\(\s*t\.pdu\[([0-9]+)\.\.([0-9]+)\]", sc), "flag bytes in scan.rs")
        out += f"Definition SC_FLAGS_LO : nat := {int(m.group(1))}.\nDefinition SC_FLAGS_HI : nat := {int(m.group(2))}.\n"
        m = T.need(re.search(r"ident_number: u16::from_be_bytes\(t\.pdu\[([0-9]+)\.\.([0-9]+)\]", sc), "ident bytes in scan.rs")
        out += f"Definition SC_IDENT_LO : nat := {int(m.group(1))}.\nDefinition SC_IDENT_HI : nat := {int(m.group(2))}.\n"
        m = T.need(re.search(r"&t\.pdu\[([0-9]+)\.\.\]", sc), "extended diagnostics slice in scan.rs")
        out += f"Definition SC_EXT_FROM : nat := {int(m.group(1))}.\n"
        flags = T.strip_comments(T.block_after(per, r"pub struct DiagnosticFlags: u16\s*\{", "DiagnosticFlags"))
        for name in ["EXT_DIAG", "PERMANENT_BIT"]:
            m = T.need(re.search(r"const " + name + r"\s*=\s*([0-9a-fA-Fxb_]+);", flags), f"DiagnosticFlags::{name}")
            out += f"Definition SC_FLAG_{name} : Z := {T.int_expr(str(int(m.group(1).replace('_', ''), 0)), name)}.\n"
        return out

    return {"ScanTables.v": gen}
