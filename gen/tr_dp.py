"""Translator for the DP layer tables: src/dp/peripheral.rs, src/dp/master.rs -> Generated/DpTables.v.

Everything that is a table or a numeric constant in the DP master code: the DiagnosticFlags
masks, the PeripheralEvent / PeripheralState / OperatingState enums, the SAP constants used by
each request kind, the Set_Prm station status bits and layout, the limits of the diagnostics
header decoder, the retry comparison, the global-control interval and payload.
"""
import re


def register(T):
    need, TranslateError, int_expr = T.need, T.TranslateError, T.int_expr

    def gen():
        per = T.read("src/dp/peripheral.rs")
        mas = T.read("src/dp/master.rs")
        pset = T.read("src/dp/peripheral_set.rs")
        out = T.HEADER.replace("translate.py", "tr_dp.py")
        out += "From PB Require Import Consts.\n\n"

        # --- DiagnosticFlags masks ----------------------------------------------------------
        body = T.block_after(per, r"pub struct DiagnosticFlags: u16 \{", "DiagnosticFlags")
        body = T.strip_comments(body)
        flags = re.findall(r"const ([A-Z_0-9]+)\s*=\s*([0-9a-fA-Fxb_]+);", body)
        names = [n for n, _ in flags]
        for required in ["STATION_NOT_READY", "CONFIGURATION_FAULT", "EXT_DIAG", "PARAMETER_FAULT",
                         "PARAMETER_REQUIRED", "PERMANENT_BIT"]:
            if required not in names:
                raise TranslateError(f"DiagnosticFlags::{required} missing")
        for n, v in flags:
            out += f"Definition DF_{n} : Z := {int_expr(v, n)}.\n"
        out += "Definition all_diag_flags : list Z := [" + "; ".join("DF_" + n for n in names) + "].\n"

        # --- enums ----------------------------------------------------------------------------
        ev = T.parse_enum(per, "PeripheralEvent")
        out += T.coq_ind("pevent", ["Ev" + n for n, _ in ev])
        out += "Definition all_pevents : list pevent := [" + "; ".join("Ev" + n for n, _ in ev) + "].\n"
        out += T.coq_match_fn("pevent_code", "pevent", "Z", [("Ev" + n, v) for n, v in ev])
        for required in ["Online", "Configured", "ConfigError", "ParameterError", "DataExchanged", "Diagnostics", "Offline"]:
            if required not in [n for n, _ in ev]:
                raise TranslateError(f"PeripheralEvent::{required} missing")

        m = need(re.search(r"enum PeripheralState\s*\{", per), "enum PeripheralState")
        sbody = T.block_after(per, r"enum PeripheralState\s*\{", "PeripheralState")
        dflt = need(re.search(r"#\[default\]\s*(\w+),", sbody), "PeripheralState default")
        sbody_nc = re.sub(r"#\[[^\]]*\]", "", T.strip_comments(sbody))
        st = [s.strip() for s in sbody_nc.split(",") if s.strip()]
        if st != ["Offline", "WaitForParam", "WaitForConfig", "ValidateConfig", "PreDataExchange", "DataExchange"]:
            raise TranslateError("PeripheralState variants changed: " + ",".join(st))
        out += T.coq_ind("pstate", ["Ps" + n for n in st])
        out += "Definition all_pstates : list pstate := [" + "; ".join("Ps" + n for n in st) + "].\n"
        out += T.coq_match_fn("pstate_code", "pstate", "Z", [("Ps" + n, i) for i, n in enumerate(st)])
        out += f"Definition pstate_default : pstate := Ps{dflt.group(1)}.\n"
        live = need(re.search(r"pub fn is_live\(&self\) -> bool \{\s*self\.state (!=|==) PeripheralState::(\w+)", per), "is_live")
        run = need(re.search(r"pub fn is_running\(&self\) -> bool \{\s*self\.state (!=|==) PeripheralState::(\w+)", per), "is_running")

        def eqfn(name, op, ctor):
            pairs = [("Ps" + n, ("true" if (n == ctor) == (op == "==") else "false")) for n in st]
            return T.coq_match_fn(name, "pstate", "bool", pairs)
        out += eqfn("pstate_is_live", live.group(1), live.group(2))
        out += eqfn("pstate_is_running", run.group(1), run.group(2))

        op = T.parse_enum(mas, "OperatingState")
        if [n for n, _ in op] != ["Stop", "Clear", "Operate"]:
            raise TranslateError("OperatingState variants changed")
        out += T.coq_ind("opstate", ["Op" + n for n, _ in op])
        out += T.coq_match_fn("opstate_code", "opstate", "Z", [("Op" + n, v) for n, v in op])
        m = need(re.search(r"operating_state: OperatingState::(\w+),\s*last_global_control: None,\s*cycle_state: CycleState::DataExchange\(([0-9]+)\)", mas),
                 "DpMaster::new initial state")
        out += f"Definition opstate_initial : opstate := Op{m.group(1)}.\n"
        out += f"Definition cycle_initial_index : nat := {int(m.group(2))}%nat.\n"
        m = need(re.search(r"if state != OperatingState::(\w+) \{\s*todo!", mas), "enter_state todo! guard")
        out += f"Definition opstate_supported : opstate := Op{m.group(1)}.\n"

        # --- request headers: which SAPs / service class each request kind uses -------------------
        hdrs = re.findall(r"dsap: crate::consts::(\w+),\s*ssap: crate::consts::(\w+),\s*fc: crate::fdl::FunctionCode::new_srd_(low|high)\(self\.fcb\)", per)
        if len(hdrs) != 4:
            raise TranslateError(f"expected 4 request headers in peripheral.rs, found {len(hdrs)}")
        # order of appearance: Set_Prm, Chk_Cfg, Data_Exchange, Slave_Diag
        for kind, (d, s, prio) in zip(["prm", "cfg", "dx", "diag"], hdrs):
            out += f"Definition dp_{kind}_dsap : option Z := {d}.\n"
            out += f"Definition dp_{kind}_ssap : option Z := {s}.\n"
            out += f"Definition dp_{kind}_high : bool := {'true' if prio == 'high' else 'false'}.\n"
        m = need(re.search(r"t\.h\.dsap != crate::consts::(\w+)", per), "diag reply dsap check")
        out += f"Definition dp_diag_reply_dsap : option Z := {m.group(1)}.\n"
        m = need(re.search(r"t\.h\.ssap != crate::consts::(\w+)", per), "diag reply ssap check")
        out += f"Definition dp_diag_reply_ssap : option Z := {m.group(1)}.\n"

        # --- Set_Prm layout ---------------------------------------------------------------------
        for nm, pat in [("lock_req", r"buf\[0\] \|= (0x[0-9a-fA-F]+); // Lock_Req"),
                        ("sync_req", r"buf\[0\] \|= (0x[0-9a-fA-F]+); // Sync_Req"),
                        ("freeze_req", r"buf\[0\] \|= (0x[0-9a-fA-F]+); // Freeze_Req"),
                        ("wd_on", r"buf\[0\] \|= (0x[0-9a-fA-F]+); // WD_On")]:
            m = need(re.search(pat, per), f"Set_Prm {nm}")
            out += f"Definition dp_prm_{nm} : Z := {int_expr(m.group(1), nm)}.\n"
        m = need(re.search(r"([0-9]+) \+ user_parameters\.len\(\),", per), "Set_Prm fixed length")
        out += f"Definition dp_prm_fixed_len : nat := {int(m.group(1))}%nat.\n"
        need(re.search(r"buf\[1\] = f1;\s*buf\[2\] = f2;", per), "Set_Prm watchdog factor positions")
        need(re.search(r"buf\[3\] = fdl\.parameters\(\)\.min_tsdr_bits;", per), "Set_Prm min_tsdr position")
        need(re.search(r"buf\[4\.\.6\]\.copy_from_slice\(&self\.options\.ident_number\.to_be_bytes\(\)\);", per), "Set_Prm ident position")
        need(re.search(r"buf\[6\] = self\.options\.groups;", per), "Set_Prm groups position")
        need(re.search(r"buf\[7\.\.\]\.copy_from_slice\(user_parameters\);", per), "Set_Prm user prm position")

        # --- retry discipline ----------------------------------------------------------------------
        m = need(re.search(r"_ if self\.retry_count (>=|>|==) fdl\.parameters\(\)\.max_retry_limit =>", per), "retry comparison")
        cmp_ = {">": "max_retry <? retry", ">=": "max_retry <=? retry", "==": "retry =? max_retry"}[m.group(1)]
        out += f"Definition dp_retry_exhausted (retry max_retry : Z) : bool := {cmp_}.\n"
        m = need(re.search(r"PeripheralState::Offline => \{\s*if self\.retry_count == ([0-9]+) \{", per), "offline probe condition")
        out += f"Definition dp_offline_probe_retry : Z := {int(m.group(1))}.\n"

        # --- diagnostics header decoder --------------------------------------------------------------
        m = need(re.search(r"if t\.pdu\.len\(\) < ([0-9]+) \{", per), "diag min length")
        out += f"Definition dp_diag_min_len : nat := {int(m.group(1))}%nat.\n"
        m = need(re.search(r"let master_address = if t\.pdu\[([0-9]+)\] == ([0-9]+) \{", per), "diag master address")
        out += f"Definition dp_diag_master_pos : nat := {int(m.group(1))}%nat.\nDefinition dp_diag_no_master : Z := {int(m.group(2))}.\n"
        need(re.search(r"u16::from_le_bytes\(\s*t\.pdu\[0\.\.2\]\.try_into\(\)\.unwrap\(\),?\s*\)", per), "diag flags little endian at 0..2")
        need(re.search(r"ident_number: u16::from_be_bytes\(t\.pdu\[4\.\.6\]\.try_into\(\)\.unwrap\(\)\)", per), "diag ident big endian at 4..6")
        need(re.search(r"self\.ext_diag\.fill\(&t\.pdu\[6\.\.\]\)", per), "ext diag from 6")

        # --- master: global control ---------------------------------------------------------------------
        m = need(re.search(r"now - t >= fdl\.parameters\(\)\.slot_time\(\) \* ([0-9]+)", mas), "global control interval")
        out += f"Definition dp_gc_interval_slots : Z := {int(m.group(1))}.\n"
        m = need(re.search(r"da: (0x[0-9a-fA-F]+|[0-9]+),\s*sa: fdl\.parameters\(\)\.address,\s*dsap: crate::consts::(\w+),\s*ssap: crate::consts::(\w+),", mas), "global control header")
        out += f"Definition dp_gc_da : Z := {int_expr(m.group(1), 'gc da')}.\n"
        out += f"Definition dp_gc_dsap : option Z := {m.group(2)}.\nDefinition dp_gc_ssap : option Z := {m.group(3)}.\n"
        need(re.search(r"fcb: crate::fdl::FrameCountBit::Inactive,\s*req: crate::fdl::RequestType::SdnLow,", mas), "global control function code (SDN low, inactive)")
        m = need(re.search(r"OperatingState::Clear => (0x[0-9a-fA-F]+),\s*OperatingState::Operate => (0x[0-9a-fA-F]+),", mas), "global control byte")
        out += f"Definition dp_gc_clear : Z := {int_expr(m.group(1), 'gc clear')}.\nDefinition dp_gc_operate : Z := {int_expr(m.group(2), 'gc operate')}.\n"
        m = need(re.search(r"buf\[1\] = (0x[0-9a-fA-F]+);", mas), "global control group byte")
        out += f"Definition dp_gc_groups : Z := {int_expr(m.group(1), 'gc groups')}.\n"

        # --- peripheral set ---------------------------------------------------------------------------------
        need(re.search(r"\.filter\(\|\(_, p\)\| p\.inner\.is_some\(\)\)\s*\.nth\(1\)", pset), "get_next_index = second occupied slot from index")
        return out

    return {"DpTables.v": gen}
