"""Translator for the GSD parser (property C19).

  gsd-parser/src/gsd.pest  -> coq/Generated/GsdGrammar.v   rule enumeration + the grammar as a Gallina value
  gsd-parser/src/lib.rs,
  gsd-parser/src/parser.rs -> coq/Generated/GsdTables.v    scalar fields of GenericStationDescription (type bounds,
                                                          defaults), SupportedSpeeds masks, the key -> action table of the
                                                          top-level `setting` match, the data type name table

Fails loudly (TranslateError) on anything whose shape it does not understand.
"""
import re

T = None  # the translate module (helpers)

BUILTINS = ["ANY", "SOI", "EOI", "NEWLINE", "ASCII_DIGIT", "ASCII_NONZERO_DIGIT", "ASCII_BIN_DIGIT", "ASCII_OCT_DIGIT",
            "ASCII_HEX_DIGIT", "ASCII_ALPHA_LOWER", "ASCII_ALPHA_UPPER", "ASCII_ALPHA", "ASCII_ALPHANUMERIC", "ASCII"]


def zlist(s):
    """Gallina list of the code points of a Python string."""
    return "[" + "; ".join(str(ord(c)) for c in s) + "]"


# ------------------------------------------------------------------------------------------ pest grammar

class PestParser:
    def __init__(self, src):
        self.s = src
        self.i = 0

    def err(self, msg):
        line = self.s.count("\n", 0, self.i) + 1
        raise T.TranslateError(f"gsd.pest line {line}: {msg}")

    def ws(self):
        while self.i < len(self.s):
            if self.s[self.i].isspace():
                self.i += 1
            elif self.s.startswith("//", self.i):
                j = self.s.find("\n", self.i)
                self.i = len(self.s) if j < 0 else j
            elif self.s.startswith("/*", self.i):
                j = self.s.find("*/", self.i)
                if j < 0:
                    self.err("unterminated comment")
                self.i = j + 2
            else:
                break

    def peek(self, t):
        self.ws()
        return self.s.startswith(t, self.i)

    def eat(self, t):
        if not self.peek(t):
            self.err(f"expected {t!r}")
        self.i += len(t)

    def ident(self):
        self.ws()
        m = re.compile(r"[A-Za-z_][A-Za-z0-9_]*").match(self.s, self.i)
        if not m:
            self.err("expected identifier")
        self.i = m.end()
        return m.group(0)

    def string(self):
        # at the opening quote
        self.eat('"')
        out = []
        while True:
            if self.i >= len(self.s):
                self.err("unterminated string")
            c = self.s[self.i]
            if c == '"':
                self.i += 1
                return "".join(out)
            if c == "\\":
                n = self.s[self.i + 1]
                self.i += 2
                if n in "\"\\'":
                    out.append(n)
                elif n == "n":
                    out.append("\n")
                elif n == "r":
                    out.append("\r")
                elif n == "t":
                    out.append("\t")
                elif n == "0":
                    out.append("\0")
                elif n == "x":
                    out.append(chr(int(self.s[self.i:self.i + 2], 16)))
                    self.i += 2
                elif n == "u":
                    m = re.compile(r"\{([0-9a-fA-F]+)\}").match(self.s, self.i)
                    if not m:
                        self.err("bad \\u escape")
                    out.append(chr(int(m.group(1), 16)))
                    self.i = m.end()
                else:
                    self.err(f"unknown escape \\{n}")
            else:
                out.append(c)
                self.i += 1

    def char(self):
        self.eat("'")
        c = self.s[self.i]
        if c == "\\":
            self.err("escaped character literals are not supported")
        self.i += 1
        self.eat("'")
        return c

    def rules(self):
        out = []
        while True:
            self.ws()
            if self.i >= len(self.s):
                return out
            name = self.ident()
            self.eat("=")
            self.ws()
            mod = "MNormal"
            for sym, m in [("_", "MSilent"), ("@", "MAtomic"), ("$", "MCompound"), ("!", "MNonAtomic")]:
                if self.s.startswith(sym, self.i):
                    mod = m
                    self.i += 1
                    break
            self.eat("{")
            e = self.choice()
            self.eat("}")
            out.append((name, mod, e))

    def choice(self):
        if self.peek("|"):
            self.eat("|")  # leading bar is allowed
        e = self.seq()
        while self.peek("|"):
            self.eat("|")
            e = ("EChoice", e, self.seq())
        return e

    def seq(self):
        e = self.prefix()
        items = [e]
        while self.peek("~"):
            self.eat("~")
            items.append(self.prefix())
        # pest's sequence operator is right associative in pest_meta's AST; the shape does not matter for us
        e = items[-1]
        for x in reversed(items[:-1]):
            e = ("ESeq", x, e)
        return e

    def prefix(self):
        if self.peek("!"):
            self.eat("!")
            return ("ENeg", self.prefix())
        if self.peek("&"):
            self.eat("&")
            return ("EPos", self.prefix())
        return self.postfix()

    def postfix(self):
        e = self.term()
        while True:
            self.ws()
            c = self.s[self.i] if self.i < len(self.s) else ""
            if c == "*":
                self.i += 1
                e = ("ERep", e)
            elif c == "+":
                self.i += 1
                e = ("ERepPlus", e)
            elif c == "?":
                self.i += 1
                e = ("EOpt", e)
            elif c == "{":
                self.err("bounded repetition {n,m} is not supported by the translator")
            else:
                return e

    def term(self):
        self.ws()
        c = self.s[self.i]
        if c == "(":
            self.eat("(")
            e = self.choice()
            self.eat(")")
            return e
        if c == '"':
            return ("EStr", self.string())
        if c == "^":
            self.i += 1
            return ("EInsens", self.string())
        if c == "'":
            a = self.char()
            self.eat("..")
            b = self.char()
            return ("ERange", a, b)
        name = self.ident()
        if name in ("PUSH", "POP", "PEEK", "PEEK_ALL", "POP_ALL", "DROP"):
            self.err(f"stack operation {name} is not supported by the translator")
        return ("EIdent", name)


def gen_grammar():
    src = T.read("gsd-parser/src/gsd.pest")
    rules = PestParser(src).rules()
    names = [r[0] for r in rules]
    if len(set(names)) != len(names):
        raise T.TranslateError("gsd.pest: duplicate rule")
    if "gsd" not in names:
        raise T.TranslateError("gsd.pest: no rule `gsd`")

    def emit(e):
        k = e[0]
        if k in ("EStr", "EInsens"):
            return f"{k} {zlist(e[1])}"
        if k == "ERange":
            return f"ERange {ord(e[1])} {ord(e[2])}"
        if k == "EIdent":
            if e[1] in names:
                return f"ERule R_{e[1]}"
            if e[1] in BUILTINS:
                return f"EBuiltin B_{e[1]}"
            raise T.TranslateError(f"gsd.pest: unknown identifier {e[1]}")
        if k in ("ESeq", "EChoice"):
            return f"{k} ({emit(e[1])}) ({emit(e[2])})"
        return f"{k} ({emit(e[1])})"

    # pest's generated `Rule` enum has EOI plus every grammar rule
    ctors = ["R_EOI"] + [f"R_{n}" for n in names]
    s = T.HEADER.replace("gen/translate.py", "gen/tr_gsd.py")
    s += "(* gsd-parser/src/gsd.pest: rule enumeration (pest's `Rule` enum: EOI + every rule) and the grammar. *)\n"
    s += T.coq_ind("rule", ctors)
    s += "Definition all_rules : list rule := [" + "; ".join(ctors) + "].\n"
    s += T.coq_match_fn("rule_index", "rule", "nat", [(c, f"{i}%nat") for i, c in enumerate(ctors)], arg="r")
    s += "Definition rule_eqb (a b : rule) : bool := Nat.eqb (rule_index a) (rule_index b).\n"
    s += T.coq_match_fn("rule_name", "rule", "list Z", [("R_EOI", zlist("EOI"))] + [(f"R_{n}", zlist(n)) for n in names], arg="r")
    s += T.coq_ind("builtin", [f"B_{b}" for b in BUILTINS])
    s += "Inductive modifier : Set := MNormal | MSilent | MAtomic | MCompound | MNonAtomic.\n"
    s += ("Inductive expr : Set :=\n| EStr (s : list Z) | EInsens (s : list Z) | ERange (a b : Z)\n| ERule (r : rule) | EBuiltin (b : builtin)\n"
          "| ESeq (a b : expr) | EChoice (a b : expr)\n| EOpt (e : expr) | ERep (e : expr) | ERepPlus (e : expr)\n| EPos (e : expr) | ENeg (e : expr).\n")
    s += "Definition grammar : list (rule * modifier * expr) := [\n"
    s += ";\n".join(f"  (R_{n}, {m}, {emit(e)})" for n, m, e in rules)
    s += "\n].\n"
    return s


# ------------------------------------------------------------------------------------------ tables of lib.rs / parser.rs

INT_BITS = {"u8": 8, "u16": 16, "u32": 32}
OTHER_FIELDS = {"supported_speeds": "SupportedSpeeds", "max_tsdr": "MaxTsdr", "available_modules": "Vec<Arc<Module>>",
                "slots": "Vec<Slot>", "user_prm_data": "UserPrmData", "unit_diag": "UnitDiag"}


def struct_fields(src, name):
    body = T.strip_comments(T.block_after(src, r"pub struct " + name + r"\s*\{", f"struct {name}"))
    out = []
    for m in re.finditer(r"pub\s+([a-z0-9_]+)\s*:\s*([^,\n]+),", body):
        out.append((m.group(1), m.group(2).strip()))
    if not out:
        raise T.TranslateError(f"struct {name}: no fields")
    return out


def split_arms(body, what):
    """Split the arms `"key" => body` / `_ => body` of a match block."""
    arms = []
    i = 0
    n = len(body)
    while True:
        m = re.compile(r'\s*(?:"([^"]*)"|(_))\s*=>\s*').match(body, i)
        if not m:
            if body[i:].strip():
                raise T.TranslateError(f"{what}: cannot parse arm at {body[i:i + 60]!r}")
            return arms
        j = m.end()
        if body[j] == "{":
            depth = 0
            k = j
            while k < n:
                if body[k] == "{":
                    depth += 1
                elif body[k] == "}":
                    depth -= 1
                    if depth == 0:
                        break
                k += 1
            arm_body = body[j:k + 1]
            k += 1
            if k < n and body[k] == ",":
                k += 1
        else:
            depth = 0
            k = j
            while k < n and not (body[k] == "," and depth == 0):
                if body[k] in "([{":
                    depth += 1
                elif body[k] in ")]}":
                    depth -= 1
                k += 1
            arm_body = body[j:k]
            k += 1
        arms.append((m.group(1), " ".join(arm_body.split())))
        i = k


def gen_tables():
    lib = T.read("gsd-parser/src/lib.rs")
    par = T.strip_comments(T.read("gsd-parser/src/parser.rs"))
    fields = struct_fields(lib, "GenericStationDescription")
    tsdr = struct_fields(lib, "MaxTsdr")
    nfields, sfields, bfields = [], [], []
    for f, ty in fields:
        if ty in INT_BITS:
            nfields.append((f, INT_BITS[ty], 0))
        elif ty == "String":
            sfields.append(f)
        elif ty == "bool":
            bfields.append(f)
        elif OTHER_FIELDS.get(f) == ty:
            pass
        else:
            raise T.TranslateError(f"GenericStationDescription.{f}: unexpected type {ty}")
    missing = set(OTHER_FIELDS) - {f for f, _ in fields}
    if missing:
        raise T.TranslateError(f"GenericStationDescription lacks {sorted(missing)}")
    # MaxTsdr: integer fields with the values of `impl Default for MaxTsdr`
    dflt = T.block_after(lib, r"impl Default for MaxTsdr\s*\{", "impl Default for MaxTsdr")
    for f, ty in tsdr:
        if ty not in INT_BITS:
            raise T.TranslateError(f"MaxTsdr.{f}: unexpected type {ty}")
        m = T.need(re.search(r"\b" + f + r"\s*:\s*([0-9_]+)\s*,", dflt), f"default of MaxTsdr.{f}")
        nfields.append(("max_tsdr_" + f, INT_BITS[ty], T.int_expr(m.group(1), f)))
    if "#[derive(Debug, PartialEq, Eq, Clone, Default)]\npub struct GenericStationDescription" not in lib:
        raise T.TranslateError("GenericStationDescription does not derive Default any more")
    # SupportedSpeeds flags
    flags = {}
    fl = T.block_after(lib, r"pub struct SupportedSpeeds\s*:\s*u16\s*\{", "SupportedSpeeds")
    for m in re.finditer(r"const\s+([A-Z0-9_]+)\s*=\s*([^;]+);", fl):
        flags[m.group(1)] = T.int_expr(m.group(2), m.group(1))
    if "SupportedSpeeds::empty()" not in lib:
        raise T.TranslateError("default of SupportedSpeeds is not empty() any more")
    # the top-level setting match (the one that knows "gsd_revision")
    blocks = []
    for m in re.finditer(r"match key\.to_lowercase\(\)\.as_str\(\)\s*\{", par):
        blocks.append(T.block_after(par[m.start():], r"match key\.to_lowercase\(\)\.as_str\(\)\s*\{", "setting match"))
    top = [b for b in blocks if '"gsd_revision"' in b]
    if len(blocks) != 2 or len(top) != 1:
        raise T.TranslateError("expected two `match key.to_lowercase().as_str()` blocks, one with \"gsd_revision\"")
    nnames = {f for f, _, _ in nfields}
    table = []
    specials = []
    for key, body in split_arms(top[0], "top-level setting match"):
        if key is None:
            if body != "()":
                raise T.TranslateError(f"top-level setting match: default arm is {body!r}")
            continue
        if key != key.lower():
            raise T.TranslateError(f"setting key {key!r} is not lower case (it is compared with a lower-cased string)")
        b = body
        if b.startswith("{") and b.endswith("}") and b.count("{") == 1:
            b = b[1:-1].strip()
        m = re.fullmatch(r"gsd\.([a-z0-9_]+) = parse_number\(value_pair\)\?", b)
        m2 = re.fullmatch(r"gsd\.max_tsdr\.([a-z0-9_]+) = parse_number\(value_pair\)\?", b)
        m3 = re.fullmatch(r"gsd\.([a-z0-9_]+) = parse_string_literal\(value_pair\)\??", b)
        m4 = re.fullmatch(r"gsd\.([a-z0-9_]+) = parse_bool\(value_pair\)\?", b)
        m5 = re.fullmatch(r"\{ if parse_bool\(value_pair\)\? \{ gsd\.supported_speeds \|= crate::SupportedSpeeds::([A-Z0-9_]+); \} \}", body)
        if m and m.group(1) in nnames:
            table.append((key, f"ANum NF_{m.group(1)}"))
        elif m2 and ("max_tsdr_" + m2.group(1)) in nnames:
            table.append((key, f"ANum NF_max_tsdr_{m2.group(1)}"))
        elif m3 and m3.group(1) in sfields:
            table.append((key, f"AStr SF_{m3.group(1)}"))
        elif m4 and m4.group(1) in bfields:
            table.append((key, f"ABool BF_{m4.group(1)}"))
        elif m5:
            if m5.group(1) not in flags:
                raise T.TranslateError(f"unknown speed flag {m5.group(1)}")
            table.append((key, f"ASpeed {flags[m5.group(1)]}"))
        elif re.match(r"gsd\.[a-z0-9_.]+ = parse_[a-z_]+\(value_pair\)\??$", b):
            raise T.TranslateError(f"setting {key!r}: simple assignment of unknown shape: {b}")
        else:
            sp = "SP_" + re.sub(r"[^a-z0-9]", "_", key)
            specials.append(sp)
            table.append((key, f"ASpecial {sp}"))
    keys = [k for k, _ in table]
    if len(set(keys)) != len(keys):
        raise T.TranslateError("duplicate key in the top-level setting match")
    # data type names of ExtUserPrmData
    tm = T.block_after(par, r"match data_type_rule\.as_str\(\)\.to_lowercase\(\)\.as_str\(\)\s*\{", "data type match")
    dtypes = []
    for m in re.finditer(r'"([a-z0-9]+)"\s*=>\s*crate::UserPrmDataType::([A-Za-z0-9]+)\s*,', tm):
        dtypes.append((m.group(1), m.group(2)))
    if not dtypes:
        raise T.TranslateError("no data type names found")
    variants = [v for v, _ in T.parse_enum(re.sub(r"\([^)]*\)", "", lib), "UserPrmDataType")]
    for _, v in dtypes:
        if v not in variants:
            raise T.TranslateError(f"data type {v} is not a variant of UserPrmDataType")

    s = T.HEADER.replace("gen/translate.py", "gen/tr_gsd.py")
    s += "(* gsd-parser/src/lib.rs: scalar fields of GenericStationDescription (+ MaxTsdr), their upper bounds and defaults. *)\n"
    s += T.coq_ind("nfield", [f"NF_{f}" for f, _, _ in nfields])
    s += "Definition all_nfields : list nfield := [" + "; ".join(f"NF_{f}" for f, _, _ in nfields) + "].\n"
    s += T.coq_match_fn("nfield_max", "nfield", "Z", [(f"NF_{f}", str(2 ** b - 1)) for f, b, _ in nfields], arg="f")
    s += T.coq_match_fn("nfield_default", "nfield", "Z", [(f"NF_{f}", str(d)) for f, _, d in nfields], arg="f")
    s += T.coq_match_fn("nfield_index", "nfield", "nat", [(f"NF_{f}", f"{i}%nat") for i, (f, _, _) in enumerate(nfields)], arg="f")
    s += T.coq_ind("sfield", [f"SF_{f}" for f in sfields])
    s += "Definition all_sfields : list sfield := [" + "; ".join(f"SF_{f}" for f in sfields) + "].\n"
    s += T.coq_match_fn("sfield_index", "sfield", "nat", [(f"SF_{f}", f"{i}%nat") for i, f in enumerate(sfields)], arg="f")
    s += T.coq_ind("bfield", [f"BF_{f}" for f in bfields])
    s += "Definition all_bfields : list bfield := [" + "; ".join(f"BF_{f}" for f in bfields) + "].\n"
    s += T.coq_match_fn("bfield_index", "bfield", "nat", [(f"BF_{f}", f"{i}%nat") for i, f in enumerate(bfields)], arg="f")
    s += "\n(* gsd-parser/src/parser.rs: the arms of the top-level `setting` match, in source order. *)\n"
    s += T.coq_ind("special", specials)
    s += "Inductive action : Set := ANum (f : nfield) | AStr (f : sfield) | ABool (f : bfield) | ASpeed (mask : Z) | ASpecial (s : special).\n"
    s += "Definition setting_table : list (list Z * action) := [\n"
    s += ";\n".join(f"  ({zlist(k)}, {a}) (* {k} *)" for k, a in table)
    s += "\n].\n"
    s += "\n(* data type names of ExtUserPrmData (compared with the lower-cased identifier) *)\n"
    s += T.coq_ind("dtname", [f"DT_{v}" for _, v in dtypes])
    s += T.coq_match_fn("dtname_index", "dtname", "nat", [(f"DT_{v}", f"{i}%nat") for i, (_, v) in enumerate(dtypes)], arg="t")
    s += "Definition dtype_table : list (list Z * dtname) := [\n"
    s += ";\n".join(f"  ({zlist(k)}, DT_{v}) (* {k} *)" for k, v in dtypes)
    s += "\n].\n"
    return s


def register(translate_module):
    global T
    T = translate_module
    return {"GsdGrammar.v": gen_grammar, "GsdTables.v": gen_tables}
