"""Translator for the GSD user-parameter tables (property C20): gsd-parser/src/lib.rs ->
coq/Generated/PrmTables.v.

Generated from the source on every run:
  * `prm_dtype`   - the variants of `pub enum UserPrmDataType` (payload arity kept),
  * `dt_size`     - the `match` table of `UserPrmDataType::size`,
  * `dt_int`      - for every integer arm of `write_value_to_slice`
                    `s[..N].copy_from_slice(&T::try_from(value)?.to_be_bytes())`:
                    the slice length N and the value range of the Rust integer type T the value is
                    converted through (so `Signed16` going through `u16` changes the model).
Fails loudly when an arm has another shape.
"""
import re

INT_RANGE = {
    "u8": (0, 2 ** 8 - 1), "u16": (0, 2 ** 16 - 1), "u32": (0, 2 ** 32 - 1),
    "i8": (-2 ** 7, 2 ** 7 - 1), "i16": (-2 ** 15, 2 ** 15 - 1), "i32": (-2 ** 31, 2 ** 31 - 1),
}
INT_BYTES = {"u8": 1, "u16": 2, "u32": 4, "i8": 1, "i16": 2, "i32": 4}


def register(T):
    def zlit(v):
        return f"({v})" if v < 0 else str(v)

    def gen_prm_tables():
        src = T.strip_comments(T.read("gsd-parser/src/lib.rs"))
        body = T.block_after(src, r"pub enum UserPrmDataType\s*\{", "enum UserPrmDataType")
        variants = []
        for item in re.split(r",\s*(?![^()]*\))", body):
            item = item.strip()
            if not item:
                continue
            m = T.need(re.fullmatch(r"([A-Za-z0-9_]+)(?:\(([^)]*)\))?", item), f"variant of UserPrmDataType: {item!r}")
            args = [a.strip() for a in m.group(2).split(",")] if m.group(2) else []
            for a in args:
                if a != "u8":
                    raise T.TranslateError(f"UserPrmDataType::{m.group(1)} payload {a!r} is not u8")
            variants.append((m.group(1), len(args)))
        if not variants:
            raise T.TranslateError("UserPrmDataType has no variants")
        names = [n for n, _ in variants]
        arity = dict(variants)

        def ctor(n):
            return "Dt" + n

        def pat(n):
            return ctor(n) + " _" * arity[n]

        out = T.HEADER
        out += "(* gsd-parser/src/lib.rs: pub enum UserPrmDataType *)\n"
        ctors = []
        for n, k in variants:
            ctors.append(ctor(n) + ("" if k == 0 else " (" + " ".join("abc"[:k]) + " : Z)"))
        out += T.coq_ind("prm_dtype", ctors)

        # ---- size()
        impl = T.block_after(src, r"impl UserPrmDataType\s*\{", "impl UserPrmDataType")
        size_body = T.block_after(impl, r"pub fn size\(self\) -> usize\s*\{", "UserPrmDataType::size")
        mbody = T.block_after(size_body, r"match self\s*\{", "match in size")
        arms = re.findall(r"UserPrmDataType::(\w+)(?:\(([^)]*)\))?\s*=>\s*([0-9_]+)\s*,", mbody)
        if sorted(a[0] for a in arms) != sorted(names):
            raise T.TranslateError("UserPrmDataType::size does not list exactly the variants")
        out += "(* UserPrmDataType::size *)\n"
        out += T.coq_match_fn("dt_size", "prm_dtype", "nat",
                              [(pat(n), f"{T.int_expr(v, 'size ' + n)}%nat") for n, _, v in arms], arg="d")

        # ---- write_value_to_slice: integer arms
        wbody = T.block_after(impl, r"pub fn write_value_to_slice\(self, value: i64, s: &mut \[u8\]\) -> Result<\(\), PrmValueRangeError>\s*\{",
                              "UserPrmDataType::write_value_to_slice")
        wm = T.block_after(wbody, r"match self\s*\{", "match in write_value_to_slice")
        pairs = []
        seen = []
        for m in re.finditer(r"UserPrmDataType::(\w+)(\([^)]*\))?\s*=>\s*\{", wm):
            name = m.group(1)
            arm = T.block_after(wm[m.start():], r"=>\s*\{", f"arm {name}")
            seen.append(name)
            if arity.get(name, 0) == 0:
                a = T.need(re.fullmatch(
                    r"\s*s\[\.\.([0-9]+)\]\.copy_from_slice\(&(\w+)::try_from\(value\)\?\.to_be_bytes\(\)\);\s*", arm),
                    f"integer arm of write_value_to_slice for {name}: {arm.strip()!r}")
                n_idx, ty = int(a.group(1)), a.group(2)
                if ty not in INT_RANGE:
                    raise T.TranslateError(f"unknown integer type {ty} in arm {name}")
                if INT_BYTES[ty] != n_idx:
                    raise T.TranslateError(f"arm {name}: s[..{n_idx}] does not match to_be_bytes of {ty}")
                lo, hi = INT_RANGE[ty]
                pairs.append((pat(name), f"Some ({n_idx}%nat, {zlit(lo)}, {zlit(hi)})"))
            else:
                pairs.append((pat(name), "None"))
        if sorted(seen) != sorted(names):
            raise T.TranslateError("write_value_to_slice does not list exactly the variants")
        out += "(* write_value_to_slice, integer arms: (N of s[..N], min, max of the type the value is converted through) *)\n"
        out += T.coq_match_fn("dt_int", "prm_dtype", "option (nat * Z * Z)", pairs, arg="d")
        return out

    return {"PrmTables.v": gen_prm_tables}
