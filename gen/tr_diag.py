"""Translator for the diagnostics tables (property C17): DiagnosticFlags masks (src/dp/peripheral.rs),
ChannelDataType / ChannelError enums and their from_diag_byte2 / into_diag_byte2 match tables, the
shift / mask constants of those functions and of ExtDiagBlockIter::next (src/dp/diagnostics.rs).
Fails loudly when the shape of the source changes."""
import re


def register(T):
    TE = T.TranslateError

    def arms_of(src, fn_re, what):
        """(scrutinee, [(pattern text, value text)]) of the first match in function fn_re."""
        body = T.strip_comments(T.block_after(src, fn_re, what))
        m = T.need(re.search(r"match\s+([^{]+?)\s*\{", body), f"match in {what}")
        mbody = T.block_after(body, r"match [^{]*\{", f"match in {what}")
        arms = []
        for arm in re.finditer(r"\s*([^,{}]+?)\s*=>\s*([^,\n]+),", mbody):
            arms.append((arm.group(1).strip(), arm.group(2).strip()))
        if not arms:
            raise TE(f"no arms in {what}")
        return m.group(1).strip(), arms

    def gen():
        out = T.HEADER.replace("translate.py", "tr_diag.py")
        per = T.read("src/dp/peripheral.rs")
        dia = T.read("src/dp/diagnostics.rs")

        # ---- DiagnosticFlags ------------------------------------------------------------------
        fl = T.strip_comments(T.block_after(per, r"pub struct DiagnosticFlags: u16\s*\{", "DiagnosticFlags"))
        flags = re.findall(r"const\s+([A-Z0-9_]+)\s*=\s*([0-9a-fA-Fxb_]+)\s*;", fl)
        if len(flags) < 8:
            raise TE("expected the DiagnosticFlags constants")
        names = [n for n, _ in flags]
        for required in ["PERMANENT_BIT", "EXT_DIAG", "STATION_NOT_READY", "CONFIGURATION_FAULT",
                         "PARAMETER_FAULT", "PARAMETER_REQUIRED"]:
            if required not in names:
                raise TE(f"missing DiagnosticFlags::{required}")
        for n, v in flags:
            out += f"Definition FLAG_{n} : Z := {T.int_expr(v, n)}.\n"
        out += "Definition all_diag_flags : list Z := [" + "; ".join("FLAG_" + n for n in names) + "].\n"

        # header decoding shape in handle_diagnostics_response and scan.rs parse_diag_response
        for rel, fn in [("src/dp/peripheral.rs", r"fn handle_diagnostics_response\("),
                        ("src/dp/scan.rs", r"fn parse_diag_response\(")]:
            src = T.read(rel)
            i = T.need(re.search(fn, src), f"{fn} in {rel}").start()
            body = src[i:]
            m = T.need(re.search(r"if t\.pdu\.len\(\) < ([0-9]+) \{", body), f"{rel}: minimum PDU length")
            minlen = int(m.group(1))
            m = T.need(re.search(r"let master_address = if t\.pdu\[([0-9]+)\] == ([0-9]+) \{\s*None\s*\} else \{\s*Some\(t\.pdu\[([0-9]+)\]\)", body),
                       f"{rel}: master address decoding")
            if m.group(1) != m.group(3):
                raise TE(f"{rel}: master address read from two different bytes")
            mpos, mnone = int(m.group(1)), int(m.group(2))
            m = T.need(re.search(r"from_bits_retain\(u16::from_le_bytes\(\s*t\.pdu\[([0-9]+)\.\.([0-9]+)\]", body), f"{rel}: flags bytes")
            f0, f1 = int(m.group(1)), int(m.group(2))
            m = T.need(re.search(r"ident_number: u16::from_be_bytes\(t\.pdu\[([0-9]+)\.\.([0-9]+)\]", body), f"{rel}: ident bytes")
            i0, i1 = int(m.group(1)), int(m.group(2))
            T.need(re.search(r"diag\.flags\.remove\((?:crate::dp::)?DiagnosticFlags::PERMANENT_BIT\);", body), f"{rel}: removal of PERMANENT_BIT")
            if f1 - f0 != 2 or i1 - i0 != 2:
                raise TE(f"{rel}: flags/ident are not two bytes")
            vals = (minlen, mpos, mnone, f0, i0)
            if rel.endswith("peripheral.rs"):
                pvals = vals
                m = T.need(re.search(r"if diag\.flags\.contains\(DiagnosticFlags::EXT_DIAG\) \{\s*if self\.ext_diag\.fill\(&t\.pdu\[([0-9]+)\.\.\]\)", body),
                           "ext diag fill guarded by EXT_DIAG")
                extoff = int(m.group(1))
            elif vals != pvals:
                raise TE("scan.rs decodes the diagnostics header differently from peripheral.rs")
        out += f"Definition diag_min_len : nat := {pvals[0]}.\n"
        out += f"Definition diag_master_pos : nat := {pvals[1]}.\n"
        out += f"Definition diag_master_none : Z := {pvals[2]}.\n"
        out += f"Definition diag_flags_pos : nat := {pvals[3]}.\n"
        out += f"Definition diag_ident_pos : nat := {pvals[4]}.\n"
        out += f"Definition diag_ext_pos : nat := {extoff}.\n"

        # ---- ChannelDataType --------------------------------------------------------------------
        dts = T.parse_enum(dia, "ChannelDataType")
        out += T.coq_ind("chan_dtype", ["Dt" + n for n, _ in dts])
        out += "Definition all_chan_dtypes : list chan_dtype := [" + "; ".join("Dt" + n for n, _ in dts) + "].\n"
        out += T.coq_match_fn("chan_dtype_disc", "chan_dtype", "Z", [("Dt" + n, v) for n, v in dts])
        scrut, arms = arms_of(dia, r"impl ChannelDataType \{\s*fn from_diag_byte2\(b: u8\) -> Self \{", "ChannelDataType::from_diag_byte2")
        m = T.need(re.fullmatch(r"b >> ([0-9]+)", scrut), f"ChannelDataType::from_diag_byte2 scrutinee {scrut!r}")
        out += f"Definition chan_dtype_shift : Z := {int(m.group(1))}.\n"
        s = "Definition chan_dtype_from_bits (x : Z) : chan_dtype :=\n"
        default = None
        for pat, val in arms:
            v = T.need(re.fullmatch(r"ChannelDataType::(\w+)", val), f"dtype arm value {val}").group(1)
            if pat == "_":
                default = v
            else:
                if default is not None:
                    raise TE("ChannelDataType::from_diag_byte2: arm after the default arm")
                s += f"  if x =? {T.int_expr(pat, 'dtype pattern')} then Dt{v} else\n"
        if default is None:
            raise TE("ChannelDataType::from_diag_byte2 without default arm")
        out += s + f"  Dt{default}.\n"
        m = T.need(re.search(r"fn into_diag_byte2\(self\) -> u8 \{\s*\(self as u8\) << ([0-9]+)\s*\}", dia), "ChannelDataType::into_diag_byte2")
        out += f"Definition chan_dtype_to_byte2 (d : chan_dtype) : Z := Z.shiftl (chan_dtype_disc d) {int(m.group(1))}.\n"

        # ---- ChannelError -------------------------------------------------------------------------
        body = T.strip_comments(T.block_after(dia, r"pub enum ChannelError\s*\{", "enum ChannelError"))
        items = [x.strip() for x in body.split(",") if x.strip()]
        plain, carrying = [], []
        for it in items:
            m = re.fullmatch(r"(\w+)\s*=\s*([0-9a-fA-Fxb_]+)", it)
            if m:
                plain.append((m.group(1), T.int_expr(m.group(2), it)))
                continue
            m = re.fullmatch(r"(\w+)\(u8\)", it)
            if m:
                carrying.append(m.group(1))
                continue
            raise TE(f"ChannelError variant not understood: {it!r}")
        if sorted(carrying) != ["Reserved", "Vendor"]:
            raise TE("ChannelError payload variants changed: " + ",".join(carrying))
        out += "Inductive chan_error : Set := " + " | ".join("Ce" + n for n, _ in plain) + \
               " | " + " | ".join(f"Ce{n} (v : Z)" for n in carrying) + ".\n"
        out += "Definition chan_error_disc (e : chan_error) : option Z :=\n  match e with\n"
        for n, v in plain:
            out += f"  | Ce{n} => Some {v}\n"
        for n in carrying:
            out += f"  | Ce{n} _ => None\n"
        out += "  end.\n"
        scrut, arms = arms_of(dia, r"impl ChannelError \{\s*fn from_diag_byte2\(b: u8\) -> Self \{", "ChannelError::from_diag_byte2")
        m = T.need(re.fullmatch(r"b & (0x[0-9a-fA-F]+|[0-9]+)", scrut), f"ChannelError::from_diag_byte2 scrutinee {scrut!r}")
        out += f"Definition chan_error_mask : Z := {T.int_expr(m.group(1), 'mask')}.\n"
        s = "Definition chan_error_from_code (x : Z) : chan_error :=\n"
        closed = False
        for pat, val in arms:
            if closed:
                raise TE("ChannelError::from_diag_byte2: arm after the catch-all arm")
            m = re.fullmatch(r"ChannelError::(\w+)", val)
            if m:
                s += f"  if x =? {T.int_expr(pat, 'error pattern')} then Ce{m.group(1)} else\n"
                continue
            m = T.need(re.fullmatch(r"ChannelError::(\w+)\((\w+)\)", val), f"error arm value {val}")
            ctor, var = m.group(1), m.group(2)
            pm = re.fullmatch(r"(\w+) @ ([0-9]+)\.\.=([0-9]+)", pat)
            if pm:
                if pm.group(1) != var:
                    raise TE(f"binding mismatch in arm {pat} => {val}")
                s += f"  if ({int(pm.group(2))} <=? x) && (x <=? {int(pm.group(3))}) then Ce{ctor} x else\n"
            elif re.fullmatch(r"\w+", pat) and pat == var:
                s += f"  Ce{ctor} x.\n"
                closed = True
            else:
                raise TE(f"ChannelError::from_diag_byte2 arm not understood: {pat} => {val}")
        if not closed:
            raise TE("ChannelError::from_diag_byte2 without catch-all arm")
        out += s
        ib = T.strip_comments(T.block_after(dia, r"impl ChannelError \{", "impl ChannelError"))
        ib = T.block_after(ib, r"fn into_diag_byte2\(self\) -> u8 \{", "ChannelError::into_diag_byte2")
        prs = re.findall(r"ChannelError::(\w+)(?:\((\w+)\))?\s*=>\s*(\w+),", ib)
        if sorted(n for n, _, _ in prs) != sorted([n for n, _ in plain] + carrying):
            raise TE("ChannelError::into_diag_byte2 table incomplete")
        s = "Definition chan_error_to_byte2 (e : chan_error) : Z :=\n  match e with\n"
        for n, var, val in prs:
            if var:
                if val != var:
                    raise TE(f"into_diag_byte2: {n}({var}) => {val}")
                s += f"  | Ce{n} v => v\n"
            else:
                s += f"  | Ce{n} => {T.int_expr(val, n)}\n"
        out += s + "  end.\n"

        # ---- ExtDiagBlockIter::next: type shift, length masks, arm numbers ------------------------
        nb = T.strip_comments(T.block_after(dia, r"fn next\(&mut self\) -> Option<Self::Item> \{", "ExtDiagBlockIter::next"))
        m = T.need(re.search(r"match header >> ([0-9]+) \{", nb), "block type shift")
        out += f"Definition blk_type_shift : Z := {int(m.group(1))}.\n"
        mb = T.block_after(nb, r"match header >> [0-9]+ \{", "block type match")
        kinds = {}
        for m in re.finditer(r"(0b[01]+)\s*=>\s*\{(.*?)\n            \}", mb, re.S):
            code, text = T.int_expr(m.group(1), "block type"), m.group(2)
            if "ExtDiagBlock::Identifier" in text:
                k = "ident"
            elif "ExtDiagBlock::Channel" in text:
                k = "channel"
            elif "ExtDiagBlock::Device" in text:
                k = "device"
            elif re.search(r"\bNone\s*$", text.strip()):
                k = "reserved"
            else:
                raise TE(f"block type arm {code} not understood")
            if k in kinds:
                raise TE(f"two arms of kind {k}")
            kinds[k] = (code, text)
        if sorted(kinds) != ["channel", "device", "ident", "reserved"]:
            raise TE("block type arms changed: " + ",".join(sorted(kinds)))
        for k in ["device", "ident", "channel", "reserved"]:
            out += f"Definition blk_type_{k} : Z := {kinds[k][0]}.\n"
        masks = set()
        for k in ["device", "ident"]:
            m = T.need(re.search(r"let length = usize::from\(header & (0x[0-9a-fA-F]+)\);", kinds[k][1]), f"{k} length mask")
            masks.add(T.int_expr(m.group(1), "length mask"))
            T.need(re.search(r"&remainder\[1\.\.length\]", kinds[k][1]), f"{k} data slice")
            T.need(re.search(r"self\.cursor \+= length;", kinds[k][1]), f"{k} cursor advance")
        if len(masks) != 1:
            raise TE("identifier and device blocks use different length masks")
        # F5: is a length field of 0 rejected before `&remainder[1..length]`?
        guards = set()
        for k in ["device", "ident"]:
            g = re.search(r"if length == 0 \{(?:(?!\bif\b).)*?self\.cursor = raw_buffer\.len\(\);\s*return None;\s*\}", kinds[k][1], re.S)
            sl = kinds[k][1].index("&remainder[1..length]")
            guards.add(bool(g) and g.end() < sl)
        if len(guards) != 1:
            raise TE("identifier and device blocks differ in the length-0 guard")
        out += f"Definition blk_len0_guard : bool := {'true' if guards.pop() else 'false'}.\n"
        out += f"Definition blk_len_mask : Z := {masks.pop()}.\n"
        ch = kinds["channel"][1]
        m = T.need(re.search(r"if remainder\.len\(\) < ([0-9]+) \{", ch), "channel block length")
        clen = int(m.group(1))
        T.need(re.search(r"self\.cursor \+= " + str(clen) + ";", ch), "channel cursor advance")
        out += f"Definition blk_channel_len : nat := {clen}.\n"
        fields = {
            "module": r"module: remainder\[0\] & (0x[0-9a-fA-F]+),",
            "channel": r"channel: remainder\[1\] & (0x[0-9a-fA-F]+),",
            "input": r"input: remainder\[1\] & (0x[0-9a-fA-F]+) != 0,",
            "output": r"output: remainder\[1\] & (0x[0-9a-fA-F]+) != 0,",
        }
        for f, rx in fields.items():
            m = T.need(re.search(rx, ch), f"channel field {f}")
            out += f"Definition chan_{f}_mask : Z := {T.int_expr(m.group(1), f)}.\n"
        T.need(re.search(r"dtype: ChannelDataType::from_diag_byte2\(remainder\[2\]\),", ch), "channel dtype byte")
        T.need(re.search(r"error: ChannelError::from_diag_byte2\(remainder\[2\]\),", ch), "channel error byte")
        return out

    return {"DiagTables.v": gen}
